"""Explicit-state explorer for the JIT cache protocol (C14, C15): DESIGN.md §2.5, Appendix A.

The *real* ``ffcx.codegeneration.jit.compile_forms`` is run as 2-4 cooperating "processes" (threads, one
running at a time) over a real tmpfs directory.  Every file-system step on the cache directory and
every ``time.sleep`` is a scheduling point owned by the explorer; the C builder (cffi) and the extension
loader are stubs with cffi's real step sequence whose steps are ordinary scheduling points; code generation
is a stub returning a text that identifies the request.  At each point the explorer may
  * run any enabled process (switching away from a runnable one costs a preemption),
  * kill a process there (SIGKILL semantics: nothing it would do later takes effect),
  * make a faultable step (code generation, builder steps, marker creation) fail.
All choice sequences within the budgets are enumerated (depth-first, prefix replay on fresh state);
states are hashed (directory contents + per-process observation histories + budgets) and a state that was
already expanded is not expanded again (identical key => identical futures, the processes being
deterministic functions of their observations).
"""

from __future__ import annotations

import builtins
import hashlib
import io
import logging
import os
import shutil
import sys
import tempfile
import threading
import types
from dataclasses import dataclass, field

_real = dict(
    open=builtins.open, io_open=io.open, os_open=os.open, stat=os.stat, lstat=os.lstat, rename=os.rename,
    replace=os.replace, unlink=os.unlink, remove=os.remove, mkdir=os.mkdir, listdir=os.listdir,
    scandir=os.scandir, access=os.access, link=os.link, symlink=os.symlink,
)


class _BinSem:
    """Binary semaphore on a raw lock (strictly alternating hand-offs; much cheaper than threading.Semaphore)."""

    __slots__ = ("l",)

    def __init__(self):
        self.l = threading.Lock()
        self.l.acquire()

    def release(self):
        self.l.release()

    def acquire(self):
        self.l.acquire()


class Killed(BaseException):
    """Raised inside a harness process that the explorer killed; nothing after it has any effect."""


class InjectedFailure(Exception):
    """An injected build/code-generation failure (stands for cffi.VerificationError, CompileError, ...)."""


class Divergence(RuntimeError):
    """Replay of a prefix did not reproduce the recorded choices: harness error."""


@dataclass
class ProcSpec:
    name: str
    module: str = "A"  # which request (form set) -> module name
    timeout: int = 2
    after: tuple = ()  # names of processes that must have finished before this one starts
    killable: bool = False
    faultable: bool = False


@dataclass
class Scenario:
    name: str
    procs: list
    preemptions: int = 2
    kills: int = 0
    faults: int = 0
    # shape of the injected exception ("message": one string argument; "bare": no arguments, like a bare `assert` or
    # `raise NotImplementedError` in code generation) - the failure path must not depend on it
    exc_shape: str = "message"


class VProc:
    def __init__(self, ex, idx, spec):
        self.ex, self.idx, self.spec = ex, idx, spec
        self.go = _BinSem()
        self.thread = None
        self.pending = ("start",)  # descriptor of the op that will execute when scheduled next
        self.pending_faultable = False
        self.fail_now = False
        self.dead = False  # killed
        self.finished = False
        self.outcome = None  # ("return", value) | ("raise", excname, text)
        self.hist = []  # (op descriptor, observation)
        self.hh = hashlib.sha1()
        self.holder = False  # between lock creation and marker/failed-rename
        self.gens = 0
        self.polls = 0
        self.stats_false = 0
        self.stat_true_seen = False
        self.loads = []
        self.injected = False
        self.first_lock_obs = None

    # -- called from the process thread -------------------------------------------------------
    def point(self, desc, faultable=False):
        """Park at a scheduling point; returns when the explorer schedules the pending op."""
        if self.dead:
            raise Killed()
        self.pending = desc
        self.pending_faultable = faultable
        self.ex.main_sem.release()
        self.go.acquire()
        if self.dead:
            raise Killed()
        if self.fail_now:
            self.fail_now = False
            self.injected = True
            self.observe(desc, "INJECTED-FAILURE")
            if desc[0] == "open" and desc[1].endswith(".c.cached"):
                raise OSError(28, "No space left on device (injected)")
            if self.ex.sc.exc_shape == "bare":
                raise InjectedFailure()
            raise InjectedFailure(f"injected failure at {desc}")

    def observe(self, desc, obs):
        self.hist.append((desc, obs))
        self.hh.update(repr((desc, obs)).encode())
        self.ex.monitor(self, desc, obs)


def _cur():
    return getattr(threading.current_thread(), "vproc", None)


class Interposer:
    """Routes FS calls made by harness process threads on the explored directory through scheduling points."""

    def __init__(self):
        self.installed = False
        self.root = None

    def _mine(self, path):
        p = _cur()
        if p is None or self.root is None:
            return None
        try:
            s = os.fspath(path)
        except TypeError:
            return None
        if isinstance(s, bytes):
            s = s.decode()
        if not os.path.isabs(s):
            return None
        if s.startswith(self.root + "/"):
            return p
        return None

    def rel(self, path):
        return os.path.basename(os.fspath(path))

    def install(self):
        if self.installed:
            return
        I = self

        def wrap_simple(name, realfn, nargs_paths=1, record=lambda r: "ok"):
            def f(*a, **k):
                p = I._mine(a[0]) if a else None
                if p is None:
                    return realfn(*a, **k)
                desc = (name,) + tuple(I.rel(x) for x in a[:nargs_paths])
                p.point(desc)
                try:
                    r = realfn(*a, **k)
                except OSError as e:
                    p.observe(desc, type(e).__name__)
                    raise
                p.observe(desc, record(r))
                return r

            return f

        def v_open(file, mode="r", *a, **k):
            p = I._mine(file) if not isinstance(file, int) else None
            if p is None:
                return _real["open"](file, mode, *a, **k)
            desc = ("open", I.rel(file), mode)
            faultable = I.rel(file).endswith(".c.cached") and "x" in mode and p.spec.faultable
            p.point(desc, faultable=faultable)
            try:
                r = _real["open"](file, mode, *a, **k)
            except OSError as e:
                p.observe(desc, type(e).__name__)
                raise
            p.observe(desc, "ok")
            return r

        def v_os_open(path, flags, *a, **k):
            p = I._mine(path)
            if p is None:
                return _real["os_open"](path, flags, *a, **k)
            desc = ("os.open", I.rel(path), flags & (os.O_CREAT | os.O_EXCL | os.O_TRUNC | os.O_WRONLY | os.O_RDWR))
            p.point(desc)
            try:
                r = _real["os_open"](path, flags, *a, **k)
            except OSError as e:
                p.observe(desc, type(e).__name__)
                raise
            p.observe(desc, "ok")
            return r

        builtins.open = v_open
        io.open = v_open
        os.open = v_os_open
        os.stat = wrap_simple("stat", _real["stat"])
        os.lstat = wrap_simple("lstat", _real["lstat"])
        os.access = wrap_simple("access", _real["access"], record=lambda r: bool(r))
        os.rename = wrap_simple("rename", _real["rename"], 2)
        os.replace = wrap_simple("replace", _real["replace"], 2)
        os.link = wrap_simple("link", _real["link"], 2)
        os.unlink = wrap_simple("unlink", _real["unlink"])
        os.remove = wrap_simple("remove", _real["remove"])
        os.listdir = wrap_simple("listdir", _real["listdir"], record=lambda r: tuple(sorted(r)))
        # mkdir of the (already existing) cache directory itself is outside root+"/" and passes through.
        os.mkdir = wrap_simple("mkdir", _real["mkdir"])
        self.installed = True

    def uninstall(self):
        if not self.installed:
            return
        builtins.open = _real["open"]
        io.open = _real["io_open"]
        os.open = _real["os_open"]
        for n in ("stat", "lstat", "rename", "replace", "unlink", "remove", "mkdir", "listdir", "access", "link"):
            setattr(os, n, _real[n])
        self.installed = False


INTERPOSER = Interposer()


# ---------------------------------------------------------------------------------------------------
# stubs for cffi / importlib / time / code generation, installed into ffcx.codegeneration.jit's namespace
# ---------------------------------------------------------------------------------------------------
SO_SUFFIX = ".vso"


class StubFFI:
    """cffi.FFI with the real builder's file-system step sequence (validated against strace, see C14)."""

    def set_source(self, name, src, **kw):
        self.name, self.src = name, src

    def cdef(self, d):
        pass

    def compile(self, tmpdir, verbose=True, debug=None):
        p = _cur()
        d = os.fspath(tmpdir)
        base = os.path.join(d, self.name)
        bid = f"{p.spec.name}#{p.gens}"
        ro, rr = _real["open"], _real["rename"]

        def step(desc, fn):
            p.point(desc, faultable=p.spec.faultable)
            try:
                r = fn()
            except OSError as e:
                p.observe(desc, type(e).__name__)
                raise
            p.observe(desc, "ok" if r is None else r)

        print("generating", base + ".c")  # goes to the redirected stdout, as cffi's verbose output does

        def rd():
            with ro(base + ".c") as f:
                return "same" if f.read() == self.src else "differs"

        step(("cffi.read", self.name + ".c"), rd)
        if p.hist[-1][1] != "same":
            def wr():
                with ro(base + f".c.~{p.spec.name}", "w") as f:
                    f.write(self.src)
            step(("cffi.write", self.name + ".c.~pid"), wr)
            step(("cffi.rename", self.name + ".c.~pid", self.name + ".c"),
                 lambda: rr(base + f".c.~{p.spec.name}", base + ".c"))

        def wo():
            with ro(base + ".o", "w") as f:
                f.write("OBJ:" + bid)
        step(("cc.write", self.name + ".o"), wo)

        def so_partial():
            with ro(base + SO_SUFFIX, "w") as f:
                f.write("PARTIAL:" + bid)
        step(("ld.create", self.name + ".so"), so_partial)

        def so_complete():
            with ro(base + SO_SUFFIX, "w") as f:
                f.write("COMPLETE:" + bid + ":" + self.src)
        step(("ld.complete", self.name + ".so"), so_complete)
        return base + SO_SUFFIX


class StubFinder:
    def __init__(self, d, *a):
        self.d = d

    def invalidate_caches(self):
        pass

    def find_spec(self, name):
        path = os.path.join(self.d, name + SO_SUFFIX)
        if not os.path.exists(path):  # interposed stat -> scheduling point
            return None
        return types.SimpleNamespace(path=path, name=name, loader=types.SimpleNamespace(exec_module=_exec_module))


def _exec_module(mod):
    p = _cur()
    with open(mod._path) as f:  # interposed open -> scheduling point
        content = f.read()
    p.loads.append(content)
    p.observe(("load", os.path.basename(mod._path)), content.split(":")[0])
    if not content.startswith("COMPLETE:"):
        raise ImportError("stub loader: file too short (partial shared object)")
    mod.lib = _Lib(content)


class _Lib:
    def __init__(self, content):
        self._c = content

    def __getattr__(self, n):
        if n.startswith("_"):
            raise AttributeError(n)
        return ("OBJ", n, self._c)


def _module_from_spec(spec):
    m = types.SimpleNamespace(_path=spec.path, __name__=spec.name)
    return m


STUB_IMPORTLIB = types.SimpleNamespace(
    machinery=types.SimpleNamespace(FileFinder=StubFinder, ExtensionFileLoader=None, EXTENSION_SUFFIXES=[SO_SUFFIX]),
    util=types.SimpleNamespace(module_from_spec=_module_from_spec),
)


class StubTime:
    def __init__(self):
        self.t = 0.0

    def sleep(self, s):
        p = _cur()
        if p is None:
            return
        p.polls += 1
        p.point(("sleep",))
        p.observe(("sleep",), "ok")

    def time(self):
        self.t += 1.0
        return self.t


def stub_compile_ufl_objects(ufl_objects, namespace="", options=None, visualise=False, **kw):
    p = _cur()
    p.point(("gen", namespace[-6:]), faultable=p.spec.faultable)
    p.gens += 1
    p.observe(("gen",), "ok")
    p.ex.gen_events.append((p.spec.name, namespace))
    src = "SRC[" + namespace + "]"
    return ["/*decl*/", src], (".h", ".c")


# ---------------------------------------------------------------------------------------------------
# one execution
# ---------------------------------------------------------------------------------------------------
@dataclass
class PointRec:
    choices: list  # [(proc idx, action)]
    chosen: int
    costs: list  # per choice: (preemption, kill, fault)
    budget: tuple  # remaining (preemptions, kills, faults) before this choice
    key: str | None


class Execution:
    def __init__(self, explorer, scenario, prefix, root, director=None):
        self.director = director  # optional callable(exec, choices) -> index: drives the schedule instead of the prefix (model-trace replay)
        self.E = explorer
        self.sc = scenario
        self.prefix = prefix
        self.root = root
        self.main_sem = _BinSem()
        self.procs = [VProc(self, i, s) for i, s in enumerate(scenario.procs)]
        self.by_name = {p.spec.name: p for p in self.procs}
        self.points: list[PointRec] = []
        self.violations = []  # (invariant id, text)
        self.gen_events = []
        self.trace = []  # [(proc name, action, desc, obs)]
        self.used_kill = self.used_fault = False
        self.killed_holders = set()

    # -- monitor: called on every observation (state invariants I1, I2) -------------------------
    def monitor(self, p, desc, obs):
        self.trace.append((p.spec.name, desc, obs))
        lockname = lambda m: self.E.module_name(m) + ".c"
        mod = p.spec.module
        if desc[0] == "open" and desc[1] == lockname(mod) and len(desc) > 2 and any(c in desc[2] for c in "xwa"):
            if p.first_lock_obs is None:
                p.first_lock_obs = obs
            if obs == "ok":
                p.holder = True
        if desc[0] == "os.open" and desc[1] == lockname(mod) and (desc[2] & os.O_CREAT):
            if p.first_lock_obs is None:
                p.first_lock_obs = obs
            if obs == "ok":
                p.holder = True
        if desc[0] == "os.open" and desc[1].endswith(".c.cached") and obs == "ok" and (desc[2] & os.O_CREAT):
            p.holder = False
        if desc[0] == "open" and desc[1].endswith(".c.cached") and obs == "ok" and len(desc) > 2 and ("x" in desc[2] or "w" in desc[2]):
            p.holder = False
        if desc[0] in ("replace", "rename") and desc[1] == lockname(mod) and obs == "ok":
            p.holder = False
        if desc[0] == "stat" and desc[1].endswith(".c.cached"):
            if obs == "ok":
                p.stat_true_seen = True
            else:
                p.stats_false += 1
        if desc[0] == "load" and obs != "COMPLETE":
            self.violations.append(("I2-partial-load", f"{p.spec.name} loaded a module that is not completely built: {obs}"))
        holders = [q.spec.name for q in self.procs if q.holder and not q.dead and not q.finished and q.spec.module == mod]
        if len(holders) > 1:
            self.violations.append(("I1-mutual-exclusion", f"two live builders hold the lock of module {mod}: {holders}"))

    # -- process body ---------------------------------------------------------------------------
    def _body(self, p: VProc):
        threading.current_thread().vproc = p
        try:
            p.go.acquire()
            if p.dead:
                raise Killed()
            p.observe(("start",), "ok")
            r = self.E.request(p.spec, self.root)
            p.outcome = ("return", r)
        except Killed:
            p.outcome = ("killed",)
        except BaseException as e:  # noqa: BLE001
            p.outcome = ("raise", type(e).__name__, str(e)[:200])
        finally:
            p.finished = True
            p.holder = p.holder and p.dead  # a process that ended normally holds nothing
            self.main_sem.release()

    def enabled(self):
        out = []
        for p in self.procs:
            if p.finished or p.dead:
                continue
            if all(self.by_name[a].finished or self.by_name[a].dead for a in p.spec.after):
                out.append(p)
        return out

    def state_key(self, running, budget):
        h = hashlib.sha1()
        for fn in sorted(_real["listdir"](self.root)):
            try:
                with _real["open"](os.path.join(self.root, fn)) as f:
                    h.update(repr((fn, f.read())).encode())
            except OSError:
                h.update(repr((fn, None)).encode())
        for p in self.procs:
            h.update(repr((p.idx, p.dead, p.finished, p.outcome if p.finished else None, p.pending, p.holder)).encode())
            h.update(p.hh.digest())
        h.update(repr((running, budget)).encode())
        return h.hexdigest()

    def run(self):
        sc = self.sc
        budget = [sc.preemptions, sc.kills, sc.faults]
        running = None
        i = 0
        for p in self.procs:
            p.thread = threading.Thread(target=self._body, args=(p,), daemon=True)
            p.thread.start()
        while True:
            en = self.enabled()
            if not en:
                break
            # canonical order
            order = []
            rp = self.procs[running] if running is not None else None
            r_en = rp is not None and rp in en
            yielding = r_en and rp.pending[0] == "sleep"
            if r_en and not yielding:
                order.append(rp)
            order += [p for p in en if p is not rp]
            if r_en and yielding:
                order.append(rp)
            choices, costs = [], []
            for p in order:
                pre = 1 if (r_en and not yielding and p is not rp) else 0
                choices.append((p.idx, "run"))
                costs.append((pre, 0, 0))
            for p in order:
                if p.pending_faultable and p.spec.faultable and p.pending[0] != "start":
                    pre = 1 if (r_en and not yielding and p is not rp) else 0
                    choices.append((p.idx, "fail"))
                    costs.append((pre, 0, 1))
            for p in order:
                if p.spec.killable and p.pending[0] != "start":
                    choices.append((p.idx, "kill"))
                    costs.append((0, 1, 0))
            key = self.state_key(running, tuple(budget)) if self.E.use_keys else None
            if self.director is not None:
                c = self.director(self, choices)
                if c is None:
                    break  # the director has no further step: stop here (remaining processes stay parked)
            elif i < len(self.prefix):
                c = self.prefix[i]
                if c >= len(choices):
                    raise Divergence(f"prefix choice {c} out of range at point {i}: {choices}")
            else:
                c = 0
            cost = costs[c]
            if any(cost[k] > budget[k] for k in range(3)):
                if i < len(self.prefix):
                    raise Divergence(f"prefix choice over budget at point {i}")
                # default choice 0 is always affordable (cost 0) by construction
                raise Divergence("default choice not affordable")
            self.points.append(PointRec(choices, c, costs, tuple(budget), key))
            for k in range(3):
                budget[k] -= cost[k]
            pidx, action = choices[c]
            p = self.procs[pidx]
            if action == "kill":
                self.used_kill = True
                if p.holder:
                    self.killed_holders.add(p.spec.module)
                p.dead = True
                self.trace.append((p.spec.name, ("KILLED-BEFORE",) + tuple(p.pending), None))
                p.go.release()
                self.main_sem.acquire()  # thread unwinds (effects suppressed) and reports finished
                # running unchanged unless the victim was running
                if running == pidx:
                    running = None
                i += 1
                self._state_invariants()
                continue
            if action == "fail":
                self.used_fault = True
                p.fail_now = True
            running = pidx
            p.go.release()
            self.main_sem.acquire()  # until p parks at its next point or finishes
            i += 1
            self._state_invariants()
        for p in self.procs:
            if not p.finished:  # execution stopped early (director): unwind the parked thread without effects
                p.dead = True
                p.go.release()
                self.main_sem.acquire()
        for p in self.procs:
            p.thread.join(timeout=5)
        self._terminal_invariants()
        return self

    # -- invariants evaluated by the explorer between steps --------------------------------------
    def _state_invariants(self):
        # orphan lock: lock file present, no marker, nobody (alive) building, and no killed holder
        for m in {p.spec.module for p in self.procs}:
            mn = self.E.module_name(m)
            lock = os.path.join(self.root, mn + ".c")
            marker = os.path.join(self.root, mn + ".c.cached")
            try:
                _real["stat"](lock)
                has_lock = True
            except OSError:
                has_lock = False
            try:
                _real["stat"](marker)
                has_marker = True
            except OSError:
                has_marker = False
            live_holder = any(p.holder and not p.dead and not p.finished and p.spec.module == m for p in self.procs)
            if has_lock and not has_marker and not live_holder and m not in self.killed_holders:
                self.violations.append(("T2-orphan-lock", f"lock {mn[-8:]}.c exists without marker and without a live builder "
                                        "(a failed request did not release it): the next request would wait instead of building"))
            if has_marker:
                # marker implies a complete module is in place
                try:
                    with _real["open"](os.path.join(self.root, mn + SO_SUFFIX)) as f:
                        ok = f.read().startswith("COMPLETE:")
                except OSError:
                    ok = False
                if not ok:
                    self.violations.append(("I2-marker-before-module", f"ready marker of {mn[-8:]} exists while the module is missing or partial"))

    def _terminal_invariants(self):
        clean = not (self.used_kill or self.used_fault)
        for p in self.procs:
            if p.outcome is None:
                self.violations.append(("H-hang", f"{p.spec.name} did not terminate"))
                continue
            kind = p.outcome[0]
            mn = self.E.module_name(p.spec.module)
            if kind == "return":
                objs, mod, code = p.outcome[1]
                exp_src = "SRC[" + mn + "]"
                for o in objs:
                    if not (isinstance(o, tuple) and o[0] == "OBJ" and o[2].startswith("COMPLETE:") and o[2].endswith(":" + exp_src)):
                        self.violations.append(("I2-wrong-objects", f"{p.spec.name} returned objects that are not those of a complete build of its own request: {str(o)[:120]}"))
                if p.gens == 0 and code != (None, None):
                    self.violations.append(("T-cached-source", f"{p.spec.name} did not build but returned source {code!r}"))
            elif kind == "raise":
                exc = p.outcome[1]
                if exc == "TimeoutError":
                    if p.stat_true_seen or p.polls != p.spec.timeout:
                        self.violations.append(("T1-timeout", f"{p.spec.name} raised TimeoutError after {p.polls} polls (timeout {p.spec.timeout}), marker seen={p.stat_true_seen}"))
                elif p.injected and exc in ("InjectedFailure", "OSError"):
                    pass
                else:
                    self.violations.append(("T-unexpected-exception", f"{p.spec.name} raised {exc}: {p.outcome[2]}"))
        if clean:
            per_mod = {}
            for name, ns in self.gen_events:
                per_mod[ns] = per_mod.get(ns, 0) + 1
            for m in {p.spec.module for p in self.procs}:
                n = per_mod.get(self.E.module_name(m), 0)
                if n != 1:
                    self.violations.append(("I3-single-build", f"module {m} was generated/compiled {n} times by {[g[0] for g in self.gen_events]} (must be exactly once)"))
            for p in self.procs:
                if p.spec.after and p.outcome and p.outcome[0] == "return":
                    # a later request (started after everything before it finished) must reuse the cache
                    if p.gens != 0:
                        self.violations.append(("I3-later-request-rebuilt", f"later request {p.spec.name} rebuilt instead of reusing the cached module"))
                if p.outcome and p.outcome[0] == "raise" and p.outcome[1] != "TimeoutError":
                    pass
        if not self.used_kill:
            # without kills, a request that never overlaps with any other one (strictly sequential) must return
            # (after a *failure* the next request builds afresh and succeeds) unless it was itself made to fail
            def closure(p):
                out, todo = set(), list(p.spec.after)
                while todo:
                    a = todo.pop()
                    if a not in out:
                        out.add(a)
                        todo += list(self.by_name[a].spec.after)
                return out
            cl = {p.spec.name: closure(p) for p in self.procs}
            for p in self.procs:
                solitary = all(q is p or q.spec.name in cl[p.spec.name] or p.spec.name in cl[q.spec.name] for q in self.procs)
                if solitary and not p.injected and p.outcome and p.outcome[0] != "return":
                    self.violations.append(("T2-sequential-request-failed", f"{p.spec.name} ran alone after earlier requests ended, no process was killed, "
                                            f"yet it ended with {p.outcome[:2]} instead of returning a complete module"))

    def summary(self):
        return {
            "outcomes": {p.spec.name: (p.outcome[0] if p.outcome[0] != "raise" else "raise:" + p.outcome[1]) for p in self.procs},
            "gens": [g[0] for g in self.gen_events],
        }


class Explorer:
    """Enumerates all executions of a scenario within its budgets."""

    def __init__(self, use_keys=True):
        import ffcx.codegeneration.jit as jit
        import ffcx.compiler

        self.jit = jit
        self.use_keys = use_keys
        self.forms = {}
        self._module_names = {}
        self.saved = None
        self.stats = dict(executions=0, states=0, transitions=0, pruned=0, violations=0)
        self.seen = set()
        self.outcome_classes = {}
        self.base = tempfile.mkdtemp(prefix="jitmc_", dir="/dev/shm" if os.path.isdir("/dev/shm") else None)
        self.counter = 0
        self._prepare_requests()

    # -- real UFL requests (module names come from the real signature code) ------------------------
    def _prepare_requests(self):
        import basix.ufl
        import ufl

        dom = ufl.Mesh(basix.ufl.element("P", "triangle", 1, shape=(2,)))
        V = ufl.FunctionSpace(dom, basix.ufl.element("P", "triangle", 1))
        u, v = ufl.TrialFunction(V), ufl.TestFunction(V)
        self.forms["A"] = [u * v * ufl.dx]
        self.forms["B"] = [ufl.inner(ufl.grad(u), ufl.grad(v)) * ufl.dx]

    def module_name(self, m):
        if m not in self._module_names:
            import ffcx.naming
            import ffcx.options

            p = self.jit.ffcx.options.get_options({})
            self._module_names[m] = "libffcx_forms_" + ffcx.naming.compute_signature(
                self.forms[m], self.jit._compute_option_signature(p) + self.jit._compilation_signature([], False)
            )
        return self._module_names[m]

    def request(self, spec, root):
        return self.jit.compile_forms(list(self.forms[spec.module]), cache_dir=root, timeout=spec.timeout)

    # -- seam swap ----------------------------------------------------------------------------------
    def __enter__(self):
        import ffcx.compiler

        jit = self.jit
        self.saved = dict(cffi=jit.cffi, importlib=jit.importlib, time=jit.time, cuo=ffcx.compiler.compile_ufl_objects,
                          stdout=sys.stdout, handlers=list(logging.getLogger().handlers))
        for m in self.forms:
            self.module_name(m)
        jit.cffi = types.SimpleNamespace(FFI=StubFFI)
        jit.importlib = STUB_IMPORTLIB
        self.stub_time = StubTime()
        jit.time = self.stub_time
        ffcx.compiler.compile_ufl_objects = stub_compile_ufl_objects
        INTERPOSER.install()
        return self

    def __exit__(self, *a):
        import ffcx.compiler

        INTERPOSER.uninstall()
        jit = self.jit
        jit.cffi, jit.importlib, jit.time = self.saved["cffi"], self.saved["importlib"], self.saved["time"]
        ffcx.compiler.compile_ufl_objects = self.saved["cuo"]
        shutil.rmtree(self.base, ignore_errors=True)

    # -- single execution -----------------------------------------------------------------------------
    def execute(self, scenario, prefix, director=None):
        self.counter += 1
        root = os.path.join(self.base, f"x{self.counter}")
        _real["mkdir"](root)
        INTERPOSER.root = root
        self.stub_time.t = 0.0
        try:
            ex = Execution(self, scenario, list(prefix), root, director=director).run()
        finally:
            INTERPOSER.root = None
            sys.stdout = self.saved["stdout"]
            logging.getLogger().handlers = list(self.saved["handlers"])
            shutil.rmtree(root, ignore_errors=True)
        return ex

    # -- exhaustive exploration -----------------------------------------------------------------------
    def explore(self, scenario, on_violation, first_level=None, max_exec=None):
        """DFS over choice sequences. Returns (completed: bool)."""
        stack = [[]] if first_level is None else [list(first_level)]
        completed = True
        while stack:
            prefix = stack.pop()
            if max_exec is not None and self.stats["executions"] >= max_exec:
                completed = False
                break
            ex = self.execute(scenario, prefix)
            self.stats["executions"] += 1
            self.stats["transitions"] += len(ex.points)
            chosen = [pt.chosen for pt in ex.points]
            if chosen[: len(prefix)] != list(prefix):
                raise Divergence("replayed prefix differs")
            summ = ex.summary()
            ck = repr(sorted(summ["outcomes"].items())) + repr(len(summ["gens"]))
            self.outcome_classes.setdefault(ck, (list(chosen), summ))
            if ex.violations:
                self.stats["violations"] += 1
                on_violation(scenario, chosen, ex)
            new = []
            for i in range(len(prefix), len(ex.points)):
                pt = ex.points[i]
                if pt.key is not None:
                    if pt.key in self.seen:
                        self.stats["pruned"] += 1
                        break  # this state and everything after it was expanded before
                    self.seen.add(pt.key)
                self.stats["states"] += 1
                for alt in range(1, len(pt.choices)):
                    cost = pt.costs[alt]
                    if all(cost[k] <= pt.budget[k] for k in range(3)):
                        new.append(chosen[:i] + [alt])
            stack.extend(reversed(new))
        return completed

    def replay_twice(self, scenario, choices):
        """Replay one schedule twice; identical observations are required before a failure is trusted."""
        a = self.execute(scenario, choices)
        b = self.execute(scenario, choices)
        ta = [(t[0], t[1], t[2]) for t in a.trace]
        tb = [(t[0], t[1], t[2]) for t in b.trace]
        return ta == tb and [v[0] for v in a.violations] == [v[0] for v in b.violations], a


# ---------------------------------------------------------------------------------------------------
# parallel driver: split the choice tree into sub-trees, explore each exhaustively in a worker
# ---------------------------------------------------------------------------------------------------
def scenario_to_json(sc: Scenario):
    return dict(name=sc.name, preemptions=sc.preemptions, kills=sc.kills, faults=sc.faults, exc_shape=sc.exc_shape,
                procs=[dict(name=p.name, module=p.module, timeout=p.timeout, after=list(p.after),
                            killable=p.killable, faultable=p.faultable) for p in sc.procs])


def scenario_from_json(d):
    return Scenario(d["name"], [ProcSpec(p["name"], p["module"], p["timeout"], tuple(p["after"]), p["killable"], p["faultable"])
                                for p in d["procs"]], d["preemptions"], d["kills"], d["faults"], d.get("exc_shape", "message"))


def _violation_record(sc, chosen, ex):
    return dict(scenario=scenario_to_json(sc), choices=list(chosen), violations=[list(v) for v in ex.violations[:6]],
                trace=[[t[0], list(t[1]), t[2] if isinstance(t[2], (str, type(None), bool)) else repr(t[2])] for t in ex.trace],
                outcomes=ex.summary()["outcomes"])


def _explore_subtree(arg):
    scj, prefix, max_exec = arg
    sc = scenario_from_json(scj)
    found = []
    with Explorer() as E:
        done = E.explore(sc, lambda s, c, ex: found.append(_violation_record(s, c, ex)) if len(found) < 50 else None,
                         first_level=prefix, max_exec=max_exec)
        return dict(stats=E.stats, found=found, completed=done,
                    classes={k: [v[0], v[1]] for k, v in E.outcome_classes.items()})


def explore_scenario(sc: Scenario, jobs: int, max_exec_per_worker=None, split_target=None):
    """Exhaustively explore `sc`; returns merged stats, violation records, outcome classes, completed flag."""
    from .runner import pmap

    split_target = split_target or jobs * 40
    stats = dict(executions=0, states=0, transitions=0, pruned=0, violations=0)
    found, classes = [], {}
    completed = True
    # phase 1: breadth-first expansion in this process until enough independent sub-trees exist
    with Explorer() as E:
        frontier = [[]]
        leaves = []
        while frontier and len(frontier) + len(leaves) < split_target:
            prefix = frontier.pop(0)
            ex = E.execute(sc, prefix)
            E.stats["executions"] += 1
            E.stats["transitions"] += len(ex.points)
            chosen = [pt.chosen for pt in ex.points]
            summ = ex.summary()
            classes.setdefault(repr(sorted(summ["outcomes"].items())) + repr(len(summ["gens"])), [list(chosen), summ])
            if ex.violations:
                E.stats["violations"] += 1
                found.append(_violation_record(sc, chosen, ex))
            for i in range(len(prefix), len(ex.points)):
                pt = ex.points[i]
                E.stats["states"] += 1
                for alt in range(1, len(pt.choices)):
                    if all(pt.costs[alt][k] <= pt.budget[k] for k in range(3)):
                        frontier.append(chosen[:i] + [alt])
        for k in stats:
            stats[k] += E.stats[k]
    # phase 2: every remaining prefix roots a sub-tree explored exhaustively by a worker
    if frontier:
        scj = scenario_to_json(sc)
        for _, r in pmap(_explore_subtree, [(scj, p, max_exec_per_worker) for p in frontier], jobs=jobs):
            for k in stats:
                stats[k] += r["stats"][k]
            found += r["found"]
            completed = completed and r["completed"]
            for k, v in r["classes"].items():
                classes.setdefault(k, v)
    return stats, found, classes, completed
