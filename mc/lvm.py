"""L-AST capture and interpreter with access tracing (DESIGN §2.3).

capture(): context manager that records the L-AST actually handed to the C (or numba) formatter for every
integral / expression kernel generated inside it (wrapping the Formatter class the backend modules
instantiate - no source hooks).

Program: translates a captured AST to a Python function and runs it on numpy buffers.  Every array access
is checked per dimension against the declared sizes (or the harness-given extent for kernel arguments) and
traced as per-array (min index, max index, count, reads, writes).  Because no index expression in generated
kernels depends on floating point data, one run with given (entity, permutation) values visits every loop
iteration and every access the C kernel can make for those values.
"""

from __future__ import annotations

import cmath
import contextlib
import math

import numpy as np

ARGS = ("A", "w", "c", "coordinate_dofs", "entity_local_index", "quadrature_permutation")


class Captured:
    def __init__(self, kind, name, domain, ast, scalar_type):
        self.kind, self.name, self.domain, self.ast, self.scalar_type = kind, name, domain, ast, scalar_type


@contextlib.contextmanager
def capture(language="C"):
    """Record (kind, kernel name, domain, AST) for every kernel formatted inside the block."""
    import importlib

    pkg = "ffcx.codegeneration." + language
    mint = importlib.import_module(pkg + ".integral")
    mexp = importlib.import_module(pkg + ".expression")
    out = []
    state = {"last": None}
    OrigF_i, OrigF_e = mint.Formatter, mexp.Formatter
    OrigIG, OrigEG = mint.IntegralGenerator, mexp.ExpressionGenerator

    class IG(OrigIG):
        def generate(self, domain, *a, **k):
            state["last"] = ("integral", self.ir.expression.name, getattr(domain, "name", str(domain)))
            return super().generate(domain, *a, **k)

    class EG(OrigEG):
        def generate(self, *a, **k):
            state["last"] = ("expression", self.ir.expression.name, None)
            return super().generate(*a, **k)

    def mk(Orig):
        class Rec(Orig):
            _depth = 0

            def __call__(self, obj):
                if Rec._depth == 0 and state["last"] is not None:
                    kind, name, dom = state["last"]
                    out.append(Captured(kind, name, dom, obj, str(getattr(self, "scalar_type", ""))))
                    state["last"] = None
                Rec._depth += 1
                try:
                    return super().__call__(obj)
                finally:
                    Rec._depth -= 1

        return Rec

    mint.Formatter, mexp.Formatter = mk(OrigF_i), mk(OrigF_e)
    mint.IntegralGenerator, mexp.ExpressionGenerator = IG, EG
    try:
        yield out
    finally:
        mint.Formatter, mexp.Formatter = OrigF_i, OrigF_e
        mint.IntegralGenerator, mexp.ExpressionGenerator = OrigIG, OrigEG


# ---------------------------------------------------------------------------------------------------
class AccessError(Exception):
    pass


class Budget(Exception):
    """The access budget given to the trace was exhausted (kernel too large for the interpreter; reported, not judged)."""


class Trace:
    """Per-array summary of accesses; violations collected, not raised, so that one run reports all of them."""

    def __init__(self, budget=None):
        self.budget = budget
        self.n = 0
        self.arr = {}  # name -> [min tuple, max tuple, reads, writes(=), addwrites(+=)]
        self.oob = []  # (name, idx, shape, mode)
        self.uninit = []  # reads of never-written local entries

    def touch(self, name, idx, mode):
        self.n += 1
        if self.budget is not None and self.n > self.budget:
            raise Budget()
        t = self.arr.get(name)
        if t is None:
            self.arr[name] = t = [list(idx), list(idx), 0, 0, 0]
        else:
            mn, mx = t[0], t[1]
            for k, i in enumerate(idx):
                if i < mn[k]:
                    mn[k] = i
                if i > mx[k]:
                    mx[k] = i
        t[2 + mode] += 1


def _sqrt(x):
    if isinstance(x, complex):
        return cmath.sqrt(x)
    return math.sqrt(x)


def _mf(real, cplx):
    def f(*a):
        if any(isinstance(x, complex) for x in a):
            return cplx(*a)
        return real(*a)

    return f


def _jn(n, x):
    import mpmath

    return float(mpmath.besselj(int(n), float(np.real(x))))


def _yn(n, x):
    import mpmath

    return float(mpmath.bessely(int(n), float(np.real(x))))


MATH = {
    "sqrt": _sqrt, "abs": abs, "cos": _mf(math.cos, cmath.cos), "sin": _mf(math.sin, cmath.sin), "tan": _mf(math.tan, cmath.tan),
    "acos": _mf(math.acos, cmath.acos), "asin": _mf(math.asin, cmath.asin), "atan": _mf(math.atan, cmath.atan),
    "cosh": _mf(math.cosh, cmath.cosh), "sinh": _mf(math.sinh, cmath.sinh), "tanh": _mf(math.tanh, cmath.tanh),
    "acosh": _mf(math.acosh, cmath.acosh), "asinh": _mf(math.asinh, cmath.asinh), "atanh": _mf(math.atanh, cmath.atanh),
    "power": lambda a, b: (complex(a) ** b) if (isinstance(a, complex) or isinstance(b, complex) or (a < 0 and b != int(b))) else a ** b,
    "exp": _mf(math.exp, cmath.exp), "ln": _mf(math.log, cmath.log), "erf": lambda x: math.erf(x.real if isinstance(x, complex) else x),
    "atan_2": lambda a, b: math.atan2(np.real(a), np.real(b)), "atan2": lambda a, b: math.atan2(np.real(a), np.real(b)), "min_value": lambda a, b: min(np.real(a), np.real(b)),
    "max_value": lambda a, b: max(np.real(a), np.real(b)), "bessel_y": _yn, "bessel_j": _jn,
    "real": lambda x: x.real if isinstance(x, complex) else x, "imag": lambda x: x.imag if isinstance(x, complex) else 0.0,
    "conj": lambda x: x.conjugate() if isinstance(x, complex) else x,
}


class Program:
    """A captured kernel AST compiled to a Python function."""

    def __init__(self, ast, cmplx=False):
        import ffcx.codegeneration.lnodes as L

        self.L = L
        self.cmplx = cmplx
        self.decls = {}  # local array name -> (sizes, const, has_values)
        self.lines = []
        self.static_like = []  # arrays declared with initial values that are not const
        self._n = 0
        self._emit_stmt(ast, 1)
        src = "def kernel(A, w, c, coordinate_dofs, entity_local_index, quadrature_permutation, R, W, DECL, M, np):\n"
        src += "\n".join(self.lines) + "\n    return None\n"
        self.source = src
        ns = {}
        exec(compile(src, "<lvm>", "exec"), ns)
        self.fn = ns["kernel"]

    # -- expressions ---------------------------------------------------------------------------
    def ex(self, e):
        L = self.L
        if isinstance(e, L.LiteralFloat):
            v = e.value
            if isinstance(v, complex):
                return f"complex({v.real!r}, {v.imag!r})"
            return repr(float(v))
        if isinstance(e, L.LiteralInt):
            return repr(int(e.value))
        if isinstance(e, L.Symbol):
            return self.ident(e.name)
        if isinstance(e, L.MultiIndex):
            return self.ex(e.global_index)
        if isinstance(e, L.ArrayAccess):
            idx = ", ".join(self.ex(i) for i in e.indices)
            return f"R({self.ident(e.array.name)}, {e.array.name!r}, ({idx},))"
        if isinstance(e, L.Neg):
            return f"(-({self.ex(e.arg)}))"
        if isinstance(e, L.Not):
            return f"(not ({self.ex(e.arg)}))"
        if isinstance(e, L.NaryOp):
            op = " + " if isinstance(e, L.Sum) else " * "
            parts = [f"({self.ex(a)})" for a in e.args]
            out = parts[0]
            for p in parts[1:]:
                out = f"({out}{op}{p})"
            return out
        if isinstance(e, L.BinOp):
            a, b = self.ex(e.lhs), self.ex(e.rhs)
            op = {"&&": "and", "||": "or"}.get(e.op, e.op)
            if op in ("<", ">", "<=", ">="):
                return f"(M['real']({a}) {op} M['real']({b}))"
            return f"(({a}) {op} ({b}))"
        if isinstance(e, L.Conditional):
            return f"(({self.ex(e.true)}) if ({self.ex(e.condition)}) else ({self.ex(e.false)}))"
        if isinstance(e, L.MathFunction):
            args = ", ".join(self.ex(a) for a in e.args)
            return f"M[{e.function!r}]({args})"
        raise NotImplementedError(type(e).__name__)

    def ident(self, name):
        return "v_" + "".join(ch if ch.isalnum() or ch == "_" else "_" for ch in name) if name not in ARGS else name

    # -- statements ----------------------------------------------------------------------------
    def out(self, ind, text):
        self.lines.append("    " * ind + text)

    def _emit_stmt(self, s, ind):
        L = self.L
        if isinstance(s, L.StatementList):
            for x in s.statements:
                self._emit_stmt(x, ind)
        elif isinstance(s, L.Section):
            for d in s.declarations:
                self._emit_stmt(d, ind)
            for x in s.statements:
                self._emit_stmt(x, ind)
        elif isinstance(s, L.Comment):
            pass
        elif isinstance(s, L.ArrayDecl):
            name = s.symbol.name
            key = f"d{self._n}"
            self._n += 1
            self.decls[key] = s
            if s.values is not None and not s.const:
                self.static_like.append(name)
            self.out(ind, f"{self.ident(name)} = DECL({key!r})")
        elif isinstance(s, L.VariableDecl):
            val = self.ex(s.value) if s.value is not None else "float('nan')"
            self.out(ind, f"{self.ident(s.symbol.name)} = {val}")
        elif isinstance(s, L.ForRange):
            idx = s.index
            if not isinstance(idx, L.Symbol):
                raise NotImplementedError("loop index that is not a symbol")
            self.out(ind, f"for {self.ident(idx.name)} in range(int({self.ex(s.begin)}), int({self.ex(s.end)})):")
            n0 = len(self.lines)
            self._emit_stmt(s.body, ind + 1)
            if len(self.lines) == n0:
                self.out(ind + 1, "pass")
        elif isinstance(s, L.Statement):
            e = s.expr
            if not isinstance(e, L.AssignOp):
                raise NotImplementedError(f"statement {type(e).__name__}")
            mode = {"=": 0, "+=": 1, "-=": 2, "*=": 3, "/=": 4}[e.op]
            rhs = self.ex(e.rhs)
            if isinstance(e.lhs, L.ArrayAccess):
                idx = ", ".join(self.ex(i) for i in e.lhs.indices)
                self.out(ind, f"W({self.ident(e.lhs.array.name)}, {e.lhs.array.name!r}, ({idx},), {rhs}, {mode})")
            elif isinstance(e.lhs, L.Symbol):
                op = e.op
                self.out(ind, f"{self.ident(e.lhs.name)} {op} {rhs}")
            else:
                raise NotImplementedError("assignment target")
        else:
            raise NotImplementedError(type(s).__name__)

    # -- execution -----------------------------------------------------------------------------
    def run(self, A, w, c, X, ent, perm, trace: Trace | None = None, null_entity=False, shared=None, shared_names=(), on_shared=None):
        """Execute on 1-D numpy buffers (A is updated in place). Returns the trace."""
        L = self.L
        tr = trace or Trace()
        dt = complex if self.cmplx else float
        names = {}
        for nm, b in zip(ARGS, (A, w, c, X, ent, perm)):
            names[id(b)] = nm

        def R(arr, name, idx):
            if on_shared is not None and name in shared_names:
                on_shared()
            if arr is None:
                tr.oob.append((name, tuple(idx), None, "read of NULL pointer"))
                return 0
            if len(idx) != arr.ndim:
                tr.oob.append((name, tuple(idx), arr.shape, "rank"))
                return 0
            for i, n in zip(idx, arr.shape):
                if not (0 <= i < n):
                    tr.oob.append((name, tuple(int(k) for k in idx), arr.shape, "read"))
                    return 0
            tr.touch(name, idx, 0)
            v = arr[idx]
            return v.item() if hasattr(v, "item") else v

        def W(arr, name, idx, val, mode):
            if on_shared is not None and name in shared_names:
                on_shared()
            if arr is None or len(idx) != arr.ndim or any(not (0 <= i < n) for i, n in zip(idx, arr.shape)):
                tr.oob.append((name, tuple(int(k) for k in idx), None if arr is None else arr.shape, "write"))
                return
            tr.touch(name, idx, 1 if mode == 0 else 2)
            if mode == 0:
                arr[idx] = val
            elif mode == 1:
                arr[idx] += val
            elif mode == 2:
                arr[idx] -= val
            elif mode == 3:
                arr[idx] *= val
            else:
                arr[idx] /= val

        def DECL(key):
            s = self.decls[key]
            if shared is not None and s.symbol.name in shared_names:
                # C semantics of a static object: one instance, initialised once, shared by all invocations
                if s.symbol.name not in shared:
                    shared[s.symbol.name] = _make(s)
                return shared[s.symbol.name]
            return _make(s)

        def _make(s):
            dty = {L.DataType.INT: np.int64, L.DataType.BOOL: np.bool_}.get(s.symbol.dtype, None)
            if dty is None:
                dty = complex if (self.cmplx and s.symbol.dtype == L.DataType.SCALAR) else float
            if s.values is None:
                return np.full(s.sizes, np.nan, dtype=dty) if dty in (float, complex) else np.zeros(s.sizes, dtype=dty)
            v = np.asarray(s.values)
            a = np.zeros(s.sizes, dtype=dty)
            if v.shape == tuple(s.sizes):
                a[...] = v
            else:
                a.flat[: v.size] = v.ravel()
            return a

        ent_arg = None if null_entity else ent
        perm_arg = None if null_entity else perm
        self.fn(A, w, c, X, ent_arg, perm_arg, R, W, DECL, MATH, np)
        return tr
