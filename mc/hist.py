"""History runner (DESIGN §2.6): a history is a list of operations executed in ONE fresh interpreter
(subprocess, chosen PYTHONHASHSEED, private cwd and XDG_CONFIG_HOME); afterwards every target object is generated and the
observation (hash of the generated text, module/object names) is printed as JSON.  All histories up to a depth over a
fixed alphabet are enumerated by the checks; no state deduplication is attempted (stateless exhaustive enumeration).

This file is also the script executed in the subprocess:  python -m mc.hist '<json job>'
"""

from __future__ import annotations

import hashlib
import json
import os
import shutil
import subprocess
import sys
import tempfile

OPS = ["M", "A", "B", "E", "N", "J", "P", "I", "S", "T", "G", "D"]
OP_DOC = {
    "M": "create unrelated Mesh / FunctionSpace / Coefficient / Constant / Index objects",
    "A": "generate C code for an unrelated form (float64)",
    "B": "generate C code for another form with float32 and sum factorisation on tensor-product elements",
    "E": "generate C code for an unrelated expression",
    "N": "generate code with the numba backend (float64 and complex64)",
    "J": "run complete JIT requests (cffi builds) for an unrelated form and an unrelated expression, with the entry points' default arguments",
    "P": "change numpy print options",
    "I": "generate code for a form on a macro (P1-iso-P2) element of the same cell/degree as a target",
    "T": "generate code for three of the targets themselves under other options (loose table tolerances 1e-3, float32): whatever a compilation caches under a key that "
         "ignores options is then met by the target's own default-option compilation",
    "G": "generate code for forms that use NAMED quadrature schemes (Gauss-Jacobi on simplices, GLL on intervals/quadrilaterals/hexahedra) of the degrees the targets' default rules have",
    "D": "generate code for two bilinear forms with part='diagonal' in one request (and a vector-valued one)",
    "S": "generate code for a simplex form with the process-wide options dict that has sum_factorization=True (as ffcx.main does for several files)",
}
TARGETS = ["mass-P1-tri", "nonaffine-quad", "mixed-TH", "interior-facet", "expression", "vector-const-tet", "two-rules-coeff", "prism-ds", "iso-mass-tri", "sumfact-hex",
           "mass-Q2-hex", "two-mesh-expression", "two-rules-coeff@numba", "two-quadels-near"]
_SHARED = {}


def shared_options():
    """One options dict per process, reused by every compilation that asks for it (like ffcx.main over several files)."""
    import ffcx.options

    if "opts" not in _SHARED:
        _SHARED["opts"] = ffcx.options.get_options({"sum_factorization": True})
    return _SHARED["opts"]


# ---------------------------------------------------------------------------------------------------
# executed inside the subprocess
# ---------------------------------------------------------------------------------------------------
def _unrelated(k):
    import basix.ufl
    import ufl

    cell = ["triangle", "tetrahedron", "quadrilateral"][k % 3]
    d = {"triangle": 2, "tetrahedron": 3, "quadrilateral": 2}[cell]
    m = ufl.Mesh(basix.ufl.element("P", cell, 1, shape=(d,)))
    V = ufl.FunctionSpace(m, basix.ufl.element("P", cell, 1 + k % 2))
    return m, V, ufl.Coefficient(V), ufl.Constant(m), ufl.TestFunction(V), ufl.TrialFunction(V)


def do_op(op, k, scratch):
    import numpy as np
    import ufl

    import ffcx.compiler
    import ffcx.options

    if op == "M":
        for j in range(3):
            _unrelated(k + j)
        i, jx = ufl.indices(2)
        return
    m, V, f, c, v, u = _unrelated(k)
    if op == "A":
        ffcx.compiler.compile_ufl_objects([f * c * ufl.inner(ufl.grad(u), ufl.grad(v)) * ufl.dx + u * v * ufl.ds], options=ffcx.options.get_options({}), namespace="hA")
    elif op == "B":
        ffcx.compiler.compile_ufl_objects([ufl.sin(f) * u * v * ufl.dx], options=ffcx.options.get_options({"scalar_type": "float32", "table_rtol": 1e-4}), namespace="hB")
    elif op == "E":
        pts = np.array([[0.25] * m.topological_dimension])
        ffcx.compiler.compile_ufl_objects([(ufl.grad(f) * c, pts)], options=ffcx.options.get_options({}), namespace="hE")
    elif op == "N":
        ffcx.compiler.compile_ufl_objects([f * v * ufl.dx], options=ffcx.options.get_options({"language": "numba"}), namespace="hN")
        ffcx.compiler.compile_ufl_objects([ufl.sin(f) * ufl.inner(u, v) * ufl.dx], options=ffcx.options.get_options({"language": "numba", "scalar_type": "complex64"}), namespace="hN2")
    elif op == "J":
        import ffcx.codegeneration.jit as jit

        jit.compile_forms([c * u * v * ufl.dx], cache_dir=os.path.join(scratch, f"jit{k}"))
        jit.compile_expressions([(c * f, np.array([[0.25] * m.topological_dimension]))], cache_dir=os.path.join(scratch, f"jitx{k}"))
    elif op == "P":
        np.set_printoptions(precision=3, threshold=5, linewidth=40)
    elif op == "I":
        import basix.ufl

        mi = ufl.Mesh(basix.ufl.element("P", "triangle", 1, shape=(2,)))
        Vi = ufl.FunctionSpace(mi, basix.ufl.element("iso", "triangle", 1))
        ffcx.compiler.compile_ufl_objects([ufl.TrialFunction(Vi) * ufl.TestFunction(Vi) * ufl.dx], options=ffcx.options.get_options({}), namespace="hI")
    elif op == "S":
        if m.ufl_cell().cellname == "quadrilateral":
            # the op is about a SIMPLEX form under the shared sum_factorization=True options (standard elements on quadrilaterals are the
            # known finding of C10, an AssertionError - not what this op is for)
            m, V, f, c, v, u = _unrelated(k + 1)
        ffcx.compiler.compile_ufl_objects([f * u * v * ufl.dx], options=shared_options(), namespace="hS")
    elif op == "G":
        import basix.ufl

        for cell, d, scheme in (("triangle", 2, "Gauss-Jacobi"), ("tetrahedron", 3, "Gauss-Jacobi"), ("quadrilateral", 2, "GLL"), ("hexahedron", 3, "GLL"), ("interval", 1, "GLL")):
            mg = ufl.Mesh(basix.ufl.element("P", cell, 1, shape=(d if cell != "interval" else 2,) if cell in ("tetrahedron", "hexahedron") else (2,)))
            Vg = ufl.FunctionSpace(mg, basix.ufl.element("P", cell, 1))
            ug, vg = ufl.TrialFunction(Vg), ufl.TestFunction(Vg)
            terms = [ug * vg * ufl.dx(metadata={"quadrature_rule": scheme, "quadrature_degree": q}) for q in (1, 2, 3, 4, 5, 6)]
            if cell != "interval":
                terms += [ug * vg * ufl.ds(metadata={"quadrature_rule": "GLL" if cell in ("triangle", "quadrilateral", "hexahedron") else "Gauss-Jacobi", "quadrature_degree": q}) for q in (2, 3, 4, 6)]
            ffcx.compiler.compile_ufl_objects([sum(terms[1:], terms[0])], options=ffcx.options.get_options({}), namespace="hG")
    elif op == "D":
        ffcx.compiler.compile_ufl_objects([f * u * v * ufl.dx, ufl.inner(ufl.grad(u), ufl.grad(v)) * ufl.dx + u * v * ufl.ds], options=ffcx.options.get_options({"part": "diagonal"}), namespace="hD")
    elif op == "T":
        for name in ("mass-Q2-hex", "nonaffine-quad", "expression"):
            ffcx.compiler.compile_ufl_objects([build_target(name)], options=ffcx.options.get_options({"table_atol": 1e-3, "table_rtol": 1e-3, "scalar_type": "float32"}), namespace="hT")
    else:
        raise KeyError(op)


def build_target(name):
    import basix.ufl
    import numpy as np
    import ufl

    el = basix.ufl.element
    if name == "mass-P1-tri":
        m = ufl.Mesh(el("P", "triangle", 1, shape=(2,)))
        V = ufl.FunctionSpace(m, el("P", "triangle", 1))
        return ufl.TrialFunction(V) * ufl.TestFunction(V) * ufl.dx
    if name == "nonaffine-quad":
        m = ufl.Mesh(el("P", "quadrilateral", 2, shape=(2,)))
        V = ufl.FunctionSpace(m, el("P", "quadrilateral", 2))
        f = ufl.Coefficient(V)
        u, v = ufl.TrialFunction(V), ufl.TestFunction(V)
        return f * ufl.inner(ufl.grad(u), ufl.grad(v)) * ufl.dx + ufl.SpatialCoordinate(m)[0] * u * v * ufl.ds
    if name == "mixed-TH":
        m = ufl.Mesh(el("P", "triangle", 1, shape=(2,)))
        W = ufl.FunctionSpace(m, basix.ufl.mixed_element([el("P", "triangle", 2, shape=(2,)), el("P", "triangle", 1)]))
        (u, p), (v, q) = ufl.TrialFunctions(W), ufl.TestFunctions(W)
        w = ufl.Coefficient(W)
        return (ufl.inner(ufl.grad(u), ufl.grad(v)) - p * ufl.div(v) + q * ufl.div(u) + ufl.inner(w[0] * u, v)) * ufl.dx
    if name == "interior-facet":
        m = ufl.Mesh(el("P", "tetrahedron", 1, shape=(3,)))
        V = ufl.FunctionSpace(m, el("DG", "tetrahedron", 1))
        u, v = ufl.TrialFunction(V), ufl.TestFunction(V)
        f = ufl.Coefficient(V)
        n = ufl.FacetNormal(m)
        return ufl.inner(ufl.jump(u, n), ufl.jump(v, n)) * ufl.avg(f) * ufl.dS + ufl.inner(ufl.avg(ufl.grad(u)), n("+")) * v("-") * ufl.dS
    if name == "expression":
        m = ufl.Mesh(el("P", "triangle", 1, shape=(2,)))
        V = ufl.FunctionSpace(m, el("P", "triangle", 2))
        f, c = ufl.Coefficient(V), ufl.Constant(m)
        return (ufl.grad(f) * c + ufl.SpatialCoordinate(m), np.array([[0.25, 0.25], [0.5, 0.1]]))
    if name == "vector-const-tet":
        m = ufl.Mesh(el("P", "tetrahedron", 1, shape=(3,)))
        V = ufl.FunctionSpace(m, el("P", "tetrahedron", 1, shape=(3,)))
        K = ufl.Constant(m, shape=(3, 3))
        u, v = ufl.TrialFunction(V), ufl.TestFunction(V)
        return ufl.inner(K * ufl.sym(ufl.grad(u)), ufl.grad(v)) * ufl.dx
    if name == "two-rules-coeff":
        m = ufl.Mesh(el("P", "triangle", 1, shape=(2,)))
        V = ufl.FunctionSpace(m, el("P", "triangle", 2))
        f, g = ufl.Coefficient(V), ufl.Coefficient(V)
        v = ufl.TestFunction(V)
        return ufl.exp(f) * v * ufl.dx(degree=2) + ufl.conditional(ufl.lt(f, g), f, g) * v * ufl.dx(degree=4) + g * v * ufl.dx(1)
    if name == "iso-mass-tri":
        m = ufl.Mesh(el("P", "triangle", 1, shape=(2,)))
        V = ufl.FunctionSpace(m, el("iso", "triangle", 1))
        return ufl.TrialFunction(V) * ufl.TestFunction(V) * ufl.dx
    if name == "sumfact-hex":
        from . import forms as _f

        m = ufl.Mesh(_f.tp_element("hexahedron", 1, shape=(3,)))
        V = ufl.FunctionSpace(m, _f.tp_element("hexahedron", 2))
        u, v = ufl.TrialFunction(V), ufl.TestFunction(V)
        return ufl.inner(ufl.grad(u), ufl.grad(v)) * ufl.dx
    if name == "mass-Q2-hex":
        # tensor-product basis values: many table entries lie between the default clamping tolerance and 1e-3
        m = ufl.Mesh(el("P", "hexahedron", 1, shape=(3,)))
        V = ufl.FunctionSpace(m, el("P", "hexahedron", 2))
        return ufl.TrialFunction(V) * ufl.TestFunction(V) * ufl.dx
    if name == "two-quadels-near":
        # two DIFFERENT quadrature elements whose rules agree to rounding only (one typed in with 7 digits): FFCx accepts the pair and takes the
        # rule of the first one - "first" must not depend on the process
        import basix

        m = ufl.Mesh(el("P", "triangle", 1, shape=(2,)))
        pts, wts = basix.make_quadrature(basix.CellType.triangle, 2)
        qa = basix.ufl.quadrature_element("triangle", points=pts, weights=wts)
        qb = basix.ufl.quadrature_element("triangle", points=np.round(pts, 7), weights=np.round(wts, 7))
        fa, fb = ufl.Coefficient(ufl.FunctionSpace(m, qa)), ufl.Coefficient(ufl.FunctionSpace(m, qb))
        return fa * fb * ufl.TestFunction(ufl.FunctionSpace(m, el("P", "triangle", 1))) * ufl.dx
    if name == "two-mesh-expression":
        # quantities of a parent mesh and of its facet mesh in one expression (two domains to number in the signature)
        m = ufl.Mesh(el("P", "triangle", 1, shape=(2,)))
        fm = ufl.Mesh(el("P", "interval", 1, shape=(2,)))
        c = ufl.Coefficient(ufl.FunctionSpace(fm, el("P", "interval", 1)))
        return (c * ufl.FacetNormal(m), np.array([[0.3], [0.5], [0.8]]))
    if name == "prism-ds":
        m = ufl.Mesh(el("P", "prism", 1, shape=(3,)))
        V = ufl.FunctionSpace(m, el("P", "prism", 1))
        f = ufl.Coefficient(V)
        u, v = ufl.TrialFunction(V), ufl.TestFunction(V)
        return f * u * v * ufl.ds + u * v * ufl.dx
    raise KeyError(name)


def real_names(objs, options, args=(), debug=False):
    """Module and object names exactly as compile_forms / compile_expressions compute them (the cache lookup is intercepted)."""
    import ffcx.codegeneration.jit as jit

    class Stop(Exception):
        pass

    cap = {}
    orig = jit.get_cached_module

    def fake(module_name, object_names, cache_dir, timeout):
        cap["module"] = module_name
        cap["objects"] = list(object_names)
        raise Stop()

    jit.get_cached_module = fake
    try:
        fn = jit.compile_expressions if isinstance(objs[0], tuple) else jit.compile_forms
        kw = dict(options=dict(options or {}), cache_dir="/nonexistent-ffcx-verif")
        if args or debug:
            kw.update(cffi_extra_compile_args=list(args), cffi_debug=debug)
        # without explicit flags the entry point's own defaults are used - exactly what a caller who passes nothing gets
        fn(list(objs), **kw)
    except Stop:
        pass
    finally:
        jit.get_cached_module = orig
    return cap


def child_main(job):
    import ffcx.compiler
    import ffcx.naming
    import ffcx.options

    scratch = job["scratch"]
    for k, op in enumerate(job["history"]):
        do_op(op, 5 * k + 1, scratch)
    out = {}
    order = job["targets"]
    for name in order:
        obj = build_target(name.split("@")[0])
        extra = {"language": "numba"} if name.endswith("@numba") else {}
        opts = shared_options() if name == "sumfact-hex" else ffcx.options.get_options(dict(job.get("options") or {}, **extra))
        code, _ = ffcx.compiler.compile_ufl_objects([obj], options=opts, namespace="tgt")
        text = "\n".join(code)
        rec = {"sha": hashlib.sha1(text.encode()).hexdigest(), "len": len(text)}
        if job.get("keep_text"):
            rec["text"] = text
        if job.get("names") and "@" not in name:
            o_ = {"sum_factorization": True} if name == "sumfact-hex" else (job.get("options") or {})
            rec.update(real_names([obj], o_))
            # the same request with several extra compiler flags (their rendering in the signature must not depend on the process)
            rec["module_with_flags"] = real_names([obj], o_, args=["-O1", "-g0", "-DFFCX_VERIF_A=1", "-DFFCX_VERIF_B=2"])["module"]
        out[name] = rec
    sys.stdout.write("HIST-RESULT " + json.dumps(out) + "\n")


# ---------------------------------------------------------------------------------------------------
# parent side
# ---------------------------------------------------------------------------------------------------
def run_history(history, hashseed, targets, options=None, names=False, keep_text=False, timeout=900, config=None, user_config=None):
    base = "/dev/shm" if os.path.isdir("/dev/shm") else None
    d = tempfile.mkdtemp(prefix="hist_", dir=base)
    try:
        env = dict(os.environ)
        env["PYTHONHASHSEED"] = str(hashseed)
        env["XDG_CONFIG_HOME"] = os.path.join(d, "xdg")
        env["HOME"] = d
        job = dict(history=list(history), targets=list(targets), scratch=d, options=options, names=names, keep_text=keep_text)
        if config is not None:
            with open(os.path.join(d, "ffcx_options.json"), "w") as f:
                json.dump(config, f)
        if user_config is not None:
            os.makedirs(os.path.join(d, "xdg", "ffcx"))
            with open(os.path.join(d, "xdg", "ffcx", "ffcx_options.json"), "w") as f:
                json.dump(user_config, f)
        verif = os.path.dirname(os.path.dirname(os.path.abspath(__file__)))
        env["PYTHONPATH"] = verif + (os.pathsep + env["PYTHONPATH"] if env.get("PYTHONPATH") else "")
        r = subprocess.run([sys.executable, "-m", "mc.hist", json.dumps(job)], capture_output=True, text=True, env=env, cwd=d, timeout=timeout)
        line = [l for l in r.stdout.splitlines() if l.startswith("HIST-RESULT ")]
        if not line:
            return dict(error=(r.stderr or r.stdout)[-600:])
        return json.loads(line[-1][len("HIST-RESULT "):])
    finally:
        shutil.rmtree(d, ignore_errors=True)


if __name__ == "__main__":
    child_main(json.loads(sys.argv[1]))
