"""Parsers and normal forms for C16/C18: formatted C text -> pycparser tree, formatted numba text -> Python ast,
L-AST -> the same normal form (n-ary ops as left-associated chains, redundant parentheses invisible, literals by value)."""

from __future__ import annotations

import ast
import math
import re

import pycparser
from pycparser import c_ast

_PARSER = None


def _parser():
    global _PARSER
    if _PARSER is None:
        _PARSER = pycparser.CParser()
    return _PARSER


# ------------------------------------------------------------------------------------- normal form
# ("lit", number) | ("sym", name) | ("idx", base, (i, j, ...)) | ("neg", x) | ("not", x) | (op, a, b)
# ("cond", c, t, f) | ("call", name, (args...)) ; statements: ("assign", op, lhs, rhs) | ("for", var, begin, end, body)
# ("decl", name, dims, init) | ("block", [stmts])


def lit(v):
    """Literal normal form: sign split off so that -2.0 and Neg(2.0) coincide."""
    if isinstance(v, complex):
        return ("+", lit(v.real), ("*", ("sym", "I"), lit(v.imag)))
    if isinstance(v, bool):
        v = int(v)
    if v < 0 or (isinstance(v, float) and math.copysign(1.0, v) < 0):
        return ("neg", ("lit", -v))
    return ("lit", v)


def norm_l(n, L, language="C", fmt=None):
    """Normal form of an L expression node (what the emitted text must mean)."""
    if isinstance(n, L.LiteralFloat):
        v = n.value
        if isinstance(v, complex):
            if language == "C":
                return lit(v)
            return ("lit", v)
        return lit(float(v))
    if isinstance(n, L.LiteralInt):
        return lit(int(n.value))
    if isinstance(n, L.Symbol):
        return ("sym", n.name)
    if isinstance(n, L.MultiIndex):
        return norm_l(n.global_index, L, language)
    if isinstance(n, L.ArrayAccess):
        return ("idx", ("sym", n.array.name), tuple(norm_l(i, L, language) for i in n.indices))
    if isinstance(n, L.Neg):
        return ("neg", norm_l(n.arg, L, language))
    if isinstance(n, L.Not):
        return ("not", norm_l(n.arg, L, language))
    if isinstance(n, L.NaryOp):
        op = "+" if isinstance(n, L.Sum) else "*"
        args = [norm_l(a, L, language) for a in n.args]
        out = args[0]
        for a in args[1:]:
            out = (op, out, a)
        return out
    if isinstance(n, L.AssignOp):
        return ("assign", n.op, norm_l(n.lhs, L, language), norm_l(n.rhs, L, language))
    if isinstance(n, L.BinOp):
        return (n.op, norm_l(n.lhs, L, language), norm_l(n.rhs, L, language))
    if isinstance(n, L.Conditional):
        return ("cond", norm_l(n.condition, L, language), norm_l(n.true, L, language), norm_l(n.false, L, language))
    if isinstance(n, L.MathFunction):
        return ("call", n.function, tuple(norm_l(a, L, language) for a in n.args))
    raise NotImplementedError(type(n).__name__)


# ------------------------------------------------------------------------------------- C
def _c_const(node):
    t, v = node.type, node.value
    if t in ("int", "long int", "unsigned int", "long long int"):
        return ("lit", int(v.rstrip("uUlL"), 0))
    if t in ("double", "float", "long double"):
        return ("lit", float(v.rstrip("fFlL")))
    raise NotImplementedError(t)


def norm_c(node):
    if isinstance(node, c_ast.Constant):
        return _c_const(node)
    if isinstance(node, c_ast.ID):
        return ("sym", node.name)
    if isinstance(node, c_ast.ArrayRef):
        idx = []
        base = node
        while isinstance(base, c_ast.ArrayRef):
            idx.append(norm_c(base.subscript))
            base = base.name
        return ("idx", norm_c(base), tuple(reversed(idx)))
    if isinstance(node, c_ast.UnaryOp):
        if node.op == "-":
            return ("neg", norm_c(node.expr))
        if node.op == "!":
            return ("not", norm_c(node.expr))
        if node.op == "+":
            return norm_c(node.expr)
        return ("unary:" + node.op, norm_c(node.expr))
    if isinstance(node, c_ast.BinaryOp):
        return (node.op, norm_c(node.left), norm_c(node.right))
    if isinstance(node, c_ast.TernaryOp):
        return ("cond", norm_c(node.cond), norm_c(node.iftrue), norm_c(node.iffalse))
    if isinstance(node, c_ast.FuncCall):
        args = tuple(norm_c(a) for a in (node.args.exprs if node.args else []))
        return ("call", node.name.name, args)
    if isinstance(node, c_ast.Assignment):
        return ("assign", node.op, norm_c(node.lvalue), norm_c(node.rvalue))
    if isinstance(node, c_ast.InitList):
        return ("init", tuple(norm_c(e) for e in node.exprs))
    if isinstance(node, c_ast.Cast):
        return norm_c(node.expr)
    raise NotImplementedError(type(node).__name__)


def parse_c_body(text):
    """Parse a sequence of C statements (as they appear in a kernel body). Returns the list of pycparser statement nodes."""
    src = "void f(void)\n{\n" + text + "\n}\n"
    tree = _parser().parse(src)
    return tree.ext[0].body.block_items or []


def parse_c_exprs(exprs):
    """Parse many expressions at once: each becomes `r = <expr>;`. Returns list of normal forms (or Exception objects)."""
    out = []
    # one translation unit per chunk; on a parse error fall back to one by one to isolate the offender
    def one(e):
        try:
            items = parse_c_body(f"r = {e};")
            if len(items) != 1 or not isinstance(items[0], c_ast.Assignment):
                return ValueError(f"text does not parse to one assignment: {e!r}")
            return norm_c(items[0].rvalue)
        except Exception as ex:  # noqa: BLE001
            return ex

    CH = 400
    for i in range(0, len(exprs), CH):
        chunk = exprs[i:i + CH]
        try:
            items = parse_c_body("\n".join(f"r = {e};" for e in chunk))
            if len(items) != len(chunk):
                raise ValueError("statement count")
            out += [norm_c(it.rvalue) for it in items]
        except Exception:  # noqa: BLE001
            out += [one(e) for e in chunk]
    return out


def norm_c_stmt(node):
    """Statement normal form."""
    if isinstance(node, c_ast.Assignment):
        return norm_c(node)
    if isinstance(node, c_ast.Decl):
        dims = []
        t = node.type
        while isinstance(t, c_ast.ArrayDecl):
            dims.append(norm_c(t.dim) if t.dim is not None else None)
            t = t.type
        quals = tuple(sorted(set(node.quals) | set(node.storage)))
        return ("decl", node.name, tuple(dims), norm_c(node.init) if node.init is not None else None, quals)
    if isinstance(node, c_ast.For):
        init = node.init.decls[0] if isinstance(node.init, c_ast.DeclList) else node.init
        var = init.name
        begin = norm_c(init.init)
        cond = norm_c(node.cond)
        nxt = node.next
        ok = cond[0] == "<" and cond[1] == ("sym", var) and isinstance(nxt, c_ast.UnaryOp) and nxt.op in ("++", "p++") and norm_c(nxt.expr) == ("sym", var)
        body = node.stmt.block_items if isinstance(node.stmt, c_ast.Compound) else [node.stmt]
        return ("for", var, begin, cond[2] if ok else ("BAD-LOOP-HEADER", cond), ("block", tuple(norm_c_stmt(s) for s in (body or []))))
    if isinstance(node, c_ast.Compound):
        return ("block", tuple(norm_c_stmt(s) for s in (node.block_items or [])))
    if isinstance(node, c_ast.EmptyStatement):
        return ("block", ())
    raise NotImplementedError(type(node).__name__)


# ------------------------------------------------------------------------------------- Python (numba text)
_PYOPS = {ast.Add: "+", ast.Sub: "-", ast.Mult: "*", ast.Div: "/", ast.Eq: "==", ast.NotEq: "!=", ast.Lt: "<", ast.Gt: ">", ast.LtE: "<=", ast.GtE: ">=",
          ast.And: "&&", ast.Or: "||"}


def norm_py(node):
    if isinstance(node, ast.Expression):
        return norm_py(node.body)
    if isinstance(node, ast.Constant):
        v = node.value
        if isinstance(v, complex):
            return ("lit", v)
        return lit(v)
    if isinstance(node, ast.Name):
        return ("sym", node.id)
    if isinstance(node, ast.Subscript):
        sl = node.slice
        idx = tuple(norm_py(e) for e in sl.elts) if isinstance(sl, ast.Tuple) else (norm_py(sl),)
        return ("idx", norm_py(node.value), idx)
    if isinstance(node, ast.UnaryOp):
        if isinstance(node.op, ast.USub):
            inner = norm_py(node.operand)
            return ("neg", inner)
        if isinstance(node.op, ast.Not):
            return ("not", norm_py(node.operand))
        if isinstance(node.op, ast.UAdd):
            return norm_py(node.operand)
        raise NotImplementedError("unary")
    if isinstance(node, ast.BinOp):
        # Python writes complex literals as (a+bj) / (a-bj): fold real (+|-) imaginary constants back into one literal
        if isinstance(node.op, (ast.Add, ast.Sub)) and isinstance(node.right, ast.Constant) and isinstance(node.right.value, complex):
            left = node.left
            sign = 1.0
            if isinstance(left, ast.UnaryOp) and isinstance(left.op, ast.USub) and isinstance(left.operand, ast.Constant):
                left, sign = left.operand, -1.0
            if isinstance(left, ast.Constant) and isinstance(left.value, (int, float)):
                im = node.right.value.imag if isinstance(node.op, ast.Add) else -node.right.value.imag
                return ("lit", complex(sign * left.value if left.value != 0 or sign > 0 else -0.0, im))
        return (_PYOPS[type(node.op)], norm_py(node.left), norm_py(node.right))
    if isinstance(node, ast.BoolOp):
        vals = [norm_py(v) for v in node.values]
        out = vals[0]
        for v in vals[1:]:
            out = (_PYOPS[type(node.op)], out, v)
        return out
    if isinstance(node, ast.Compare):
        if len(node.ops) != 1:
            return ("CHAINED-COMPARISON", tuple(type(o).__name__ for o in node.ops))
        return (_PYOPS[type(node.ops[0])], norm_py(node.left), norm_py(node.comparators[0]))
    if isinstance(node, ast.IfExp):
        return ("cond", norm_py(node.test), norm_py(node.body), norm_py(node.orelse))
    if isinstance(node, ast.Call):
        fn = node.func
        name = []
        while isinstance(fn, ast.Attribute):
            name.append(fn.attr)
            fn = fn.value
        name.append(fn.id if isinstance(fn, ast.Name) else "?")
        return ("call", ".".join(reversed(name)), tuple(norm_py(a) for a in node.args))
    if isinstance(node, ast.Attribute):
        return ("attr", ast.unparse(node))
    raise NotImplementedError(type(node).__name__)


def parse_py_expr(text):
    try:
        return norm_py(ast.parse(text.strip(), mode="eval"))
    except Exception as ex:  # noqa: BLE001
        return ex


def ulps(a, b):
    """Distance in units in the last place of a (doubles)."""
    if a == b:
        return 0.0
    if not (math.isfinite(a) and math.isfinite(b)):
        return math.inf
    return abs(a - b) / math.ulp(a)


def compare(want, got, call_names=None, literal_ulps=1.0):
    """Structural equality of two normal forms with literals within `literal_ulps`. Returns None or a description."""
    if isinstance(got, Exception):
        return f"text does not parse: {type(got).__name__}: {str(got)[:100]}"
    if want[0] == "lit" and got[0] == "lit":
        a, b = want[1], got[1]
        if isinstance(a, complex) or isinstance(b, complex):
            a, b = complex(a), complex(b)
            return None if (ulps(a.real, b.real) <= literal_ulps and ulps(a.imag, b.imag) <= literal_ulps) else f"literal {b!r} != {a!r}"
        if isinstance(a, int) and isinstance(b, int):
            return None if a == b else f"integer literal {b} != {a}"
        # the kind of a constant is part of the tree: `1/2` (integer constants) is not `1.0/2.0`
        if isinstance(a, float) and isinstance(b, int):
            return f"floating literal {a!r} is emitted as the integer constant {b}"
        if isinstance(a, int) and isinstance(b, float):
            return f"integer literal {a} is emitted as the floating constant {b!r}"
        if ulps(float(a), float(b)) > literal_ulps:
            return f"literal reads back as {b!r}, {ulps(float(a), float(b)):.1f} ulp from {a!r}"
        return None
    if want[0] != got[0]:
        return f"node {got[0]!r} where {want[0]!r} expected ({_short(got)} vs {_short(want)})"
    if want[0] == "sym":
        return None if want[1] == got[1] else f"symbol {got[1]} != {want[1]}"
    if want[0] == "call":
        if call_names is not None:
            exp = call_names(want[1])
            if exp is not None and got[1] not in exp:
                return f"function {got[1]} where one of {exp} expected"
        if len(want[2]) != len(got[2]):
            return f"call {got[1]} with {len(got[2])} arguments, {len(want[2])} expected"
        for a, b in zip(want[2], got[2]):
            r = compare(a, b, call_names, literal_ulps)
            if r:
                return r
        return None
    if want[0] == "idx":
        r = compare(want[1], got[1], call_names, literal_ulps)
        if r:
            return r
        if len(want[2]) != len(got[2]):
            return f"{len(got[2])} subscripts where {len(want[2])} expected"
        for a, b in zip(want[2], got[2]):
            r = compare(a, b, call_names, literal_ulps)
            if r:
                return r
        return None
    if len(want) != len(got):
        return f"arity differs at {want[0]}"
    for a, b in zip(want[1:], got[1:]):
        if isinstance(a, tuple) and isinstance(b, tuple):
            r = compare(a, b, call_names, literal_ulps)
            if r:
                return r
        elif a != b:
            return f"{b!r} != {a!r}"
    return None


def _short(t, n=60):
    s = repr(t)
    return s if len(s) <= n else s[:n] + "..."


def fold_complex(t):
    """Canonicalise sums of a real literal and a complex literal (Python prints complex literals as such sums)."""
    if not isinstance(t, tuple):
        return t
    if t and t[0] in ("+", "-") and len(t) == 3:
        a, b = fold_complex(t[1]), fold_complex(t[2])

        def num(x):
            if x[0] == "lit":
                return x[1]
            if x[0] == "neg" and x[1][0] == "lit":
                return -x[1][1]
            return None
        na, nb = num(a), num(b)
        if na is not None and nb is not None and (isinstance(na, complex) or isinstance(nb, complex)):
            v = complex(na) + complex(nb) if t[0] == "+" else complex(na) - complex(nb)
            return ("lit", v)
        return (t[0], a, b)
    if t and t[0] == "neg":
        inner = fold_complex(t[1])
        if isinstance(inner, tuple) and inner[0] == "lit" and isinstance(inner[1], complex):
            return ("lit", -inner[1])
        return ("neg", inner)
    return tuple(fold_complex(x) if isinstance(x, tuple) else x for x in t)
