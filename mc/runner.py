"""Shared plumbing for all checks: tiers/seeds, scratch space, process pool, replay files,
known findings, evidence writing (schema-validated) and the exit-code contract.

Contract (see DESIGN.md §1 and the brief):
  exit 0  - property held on everything explored (KNOWN-FINDING lines allowed)
  exit 1  - at least one violation not listed in known_findings.json; one line
            "VIOLATION property=<id> replay=<path>" per violation
  exit 2  - harness error (never a pass, never a verdict)
"""

from __future__ import annotations

import atexit
import hashlib
import json
import os
import re
import shutil
import subprocess
import sys
import tempfile
import time
import traceback
from concurrent.futures import ProcessPoolExecutor, as_completed
import multiprocessing as mp

VERIF = os.path.dirname(os.path.dirname(os.path.abspath(__file__)))
# evidence/ and replays/ go under OUT (== VERIF except when a mutant is being evaluated in a scratch worktree)
OUT = os.environ.get("VERIF_OUT") or VERIF
REPO = os.environ.get("FFCX_REPO", "/repo")
EVIDENCE_SCHEMA = "/root/.vp/EVIDENCE.schema.json"
NCPU = int(os.environ.get("VERIF_JOBS", os.cpu_count() or 4))


def tree_sha() -> str:
    """Identify the /repo working tree the check ran against (HEAD + dirty diff hash)."""
    try:
        head = subprocess.run(["git", "-C", REPO, "rev-parse", "HEAD"], capture_output=True, text=True).stdout.strip()
        diff = subprocess.run(["git", "-C", REPO, "diff", "HEAD"], capture_output=True).stdout
        return head[:12] + ("+" + hashlib.sha1(diff).hexdigest()[:8] if diff else "")
    except Exception:
        return "unknown"


_scratch_root = None


def scratch_root() -> str:
    """Per-run scratch directory (tmpfs when available); removed at exit."""
    global _scratch_root
    if _scratch_root is None:
        base = os.environ.get("VERIF_SCRATCH") or ("/dev/shm" if os.path.isdir("/dev/shm") else tempfile.gettempdir())
        _scratch_root = tempfile.mkdtemp(prefix="ffcx_verif_", dir=base)
        root, pid = _scratch_root, os.getpid()

        def _cleanup():
            if os.getpid() == pid:
                shutil.rmtree(root, ignore_errors=True)

        atexit.register(_cleanup)
    return _scratch_root


def scratch(name: str) -> str:
    d = os.path.join(scratch_root(), name)
    os.makedirs(d, exist_ok=True)
    return d


def load_known_findings() -> list[dict]:
    p = os.path.join(VERIF, "known_findings.json")
    if not os.path.exists(p):
        return []
    with open(p) as f:
        return json.load(f)["findings"]


def _jsonable(o):
    import numpy as np

    if isinstance(o, dict):
        return {str(k): _jsonable(v) for k, v in o.items()}
    if isinstance(o, (list, tuple, set, frozenset)):
        return [_jsonable(v) for v in (sorted(o, key=repr) if isinstance(o, (set, frozenset)) else o)]
    if isinstance(o, np.ndarray):
        return _jsonable(o.tolist())
    if isinstance(o, (np.integer,)):
        return int(o)
    if isinstance(o, (np.floating,)):
        return float(o)
    if isinstance(o, complex) or isinstance(o, np.complexfloating):
        return {"re": float(o.real), "im": float(o.imag)}
    if isinstance(o, (str, int, float, bool)) or o is None:
        return o
    return repr(o)


class Check:
    """One run of one property's check."""

    def __init__(self, pid: str, level: str = "model_checking"):
        self.pid = pid
        self.level = level
        self.tier = os.environ.get("VERIF_TIER", "quick")
        if self.tier not in ("quick", "thorough"):
            self.tier = "quick"
        self.seed = int(os.environ.get("VERIF_SEED", "0") or 0)
        self.t0 = time.time()
        self.known = [k for k in load_known_findings() if k["property"] == pid]
        self.new_violations: list[tuple[str, str]] = []
        self.known_hits: dict = {}
        self.fixed_seen: list[str] = []
        self._seen_keys: set[str] = set()
        self.assumptions: list[str] = []
        self.sha = tree_sha()
        self.max_report = int(os.environ.get("VERIF_MAX_REPORT", "25"))

    @property
    def thorough(self):
        return self.tier == "thorough"

    # -- violations ---------------------------------------------------------------------------
    def violation(self, key: str, what: str, recipe=None, observed=None, expected=None):
        """Record a violation identified by the stable `key` (C19:rule-id:triangle:default:15+26)."""
        if key in self._seen_keys:
            return
        self._seen_keys.add(key)
        d = os.path.join(OUT, "replays", self.pid)
        os.makedirs(d, exist_ok=True)
        fn = re.sub(r"[^A-Za-z0-9_.+-]+", "_", key)[:150]
        if len(fn) < len(key):
            fn += "_" + hashlib.sha1(key.encode()).hexdigest()[:8]
        path = os.path.join(d, fn + ".json")
        doc = {
            "property": self.pid,
            "key": key,
            "tier": self.tier,
            "seed": self.seed,
            "what": what,
            "recipe": _jsonable(recipe),
            "expected": _jsonable(expected),
            "observed": _jsonable(observed),
            "how_to_run": f"./check {self.pid} --replay {os.path.relpath(path, OUT)}",
        }
        with open(path, "w") as f:
            json.dump(doc, f, indent=1, sort_keys=True)
            f.write("\n")
        import fnmatch

        for k in self.known:
            if k.get("status", "known") != "known":
                continue
            # a finding is identified by its exact key, or by a pattern over the failing inputs (key_pattern, fnmatch syntax)
            if k.get("key") == key or ("key_pattern" in k and fnmatch.fnmatchcase(key, k["key_pattern"])):
                ident = k.get("key") or k["key_pattern"]
                first = ident not in self.known_hits
                self.known_hits.setdefault(ident, []).append(key)
                if first or k.get("key") == key:
                    print(f"KNOWN-FINDING: property={self.pid} {key}: {k.get('what', what)}", flush=True)
                return
        self.new_violations.append((key, path))
        if len(self.new_violations) <= self.max_report:
            print(f"VIOLATION property={self.pid} replay={path}", flush=True)
            print(f"  key={key}\n  {what}", flush=True)

    # -- evidence -----------------------------------------------------------------------------
    def finish(self, coverage: dict, assumptions: list[str] | None = None, extra: dict | None = None):
        cov = dict(coverage)
        cov.setdefault("samples", [])
        cov["samples"] = _jsonable(cov["samples"])[:12]
        cov["repo_tree"] = self.sha
        cov["known_findings_hit"] = {k: (len(v) if isinstance(v, list) else 1) for k, v in sorted(self.known_hits.items())}
        cov["known_findings_listed_but_not_observed"] = sorted(
            (k.get("key") or k["key_pattern"]) for k in self.known
            if k.get("status", "known") == "known" and (k.get("key") or k["key_pattern"]) not in self.known_hits
        )
        ev = {
            "property_id": self.pid,
            "tier": self.tier,
            "seed": self.seed,
            "level": self.level,
            "coverage": _jsonable(cov),
            "assumptions": list(assumptions or []) + self.assumptions,
            "wall_s": round(time.time() - self.t0, 2),
            "violations": len(self.new_violations),
        }
        if extra:
            ev.update(_jsonable(extra))
        os.makedirs(os.path.join(OUT, "evidence"), exist_ok=True)
        path = os.path.join(OUT, "evidence", f"{self.pid}.json")
        with open(path, "w") as f:
            json.dump(ev, f, indent=1, sort_keys=True)
            f.write("\n")
        ok = validate_evidence(path)
        if not ok:
            print(f"HARNESS-ERROR: evidence {path} does not validate", flush=True)
            sys.exit(2)
        n = len(self.new_violations)
        if n > self.max_report:
            print(f"... {n - self.max_report} further violations not printed (all have replay files)")
        summ = {k: v for k, v in cov.items() if isinstance(v, (int, float, bool, str)) and k not in ("rule", "explanation")}
        print(f"[{self.pid}] tier={self.tier} seed={self.seed} violations={n} known={len(self.known_hits)} "
              f"wall={ev['wall_s']}s {summ}", flush=True)
        sys.exit(1 if n else 0)


def validate_evidence(path: str) -> bool:
    """Validate with jsonschema from the tooling venv (python3-vt); structural fallback otherwise."""
    code = (
        "import json,sys,jsonschema;"
        "s=json.load(open(sys.argv[1]));d=json.load(open(sys.argv[2]));"
        "jsonschema.Draft202012Validator(s).validate(d)"
    )
    exe = shutil.which("python3-vt")
    if exe and os.path.exists(EVIDENCE_SCHEMA):
        r = subprocess.run([exe, "-c", code, EVIDENCE_SCHEMA, path], capture_output=True, text=True)
        if r.returncode != 0:
            print(r.stderr[-2000:])
        return r.returncode == 0
    d = json.load(open(path))
    c = d.get("coverage", {})
    return all(k in d for k in ("property_id", "tier", "seed", "level", "coverage", "wall_s")) and (
        all(k in c for k in ("states", "transitions", "traces_validated_against_impl", "samples"))
        or all(k in c for k in ("evaluations", "distinct_nontrivial"))
    )


# -- process pool ---------------------------------------------------------------------------------
def _call(fn, item):
    try:
        return ("ok", fn(item))
    except BaseException:
        return ("err", traceback.format_exc())


class WorkerCrash(dict):
    """Result yielded for an item whose worker process died (segfault / abort inside a generated kernel): shaped like a violating result of
    every check (status, failures[0].kind/text); numeric fields read as 0."""

    def __init__(self, item, how):
        key = stable_hash(repr(item))
        super().__init__(status="violation", outcome="crash", key=f"worker-crash:{key}", crashed=True,
                         failures=[dict(kind="process-crash", text=f"the worker process executing this item died ({how}): a generated kernel corrupted memory or "
                                        f"aborted; item={repr(item)[:300]}")],
                         results={}, detail=f"worker process died ({how})")

    def __missing__(self, k):
        return 0


def _isolated(fn, it):
    """Run one item in a pool of its own: (status, result) or ('crash', how)."""
    from concurrent.futures.process import BrokenProcessPool

    ctx = mp.get_context("fork")
    try:
        with ProcessPoolExecutor(max_workers=1, mp_context=ctx) as ex:
            return ex.submit(_call, fn, it).result()
    except BrokenProcessPool as e:
        return ("crash", str(e)[:120] or "process pool broken")


def pmap(fn, items, jobs: int | None = None, chunk: int = 1, recycle: int | None = None, desc: str = ""):
    """Run fn over items in a fork pool, yielding (item, result) in completion order.

    A worker exception is a harness error unless the check catches it itself: it is re-raised here.  A worker that DIES (a generated kernel
    writing through a wild pointer takes the interpreter with it) breaks the pool: the unfinished items are then re-run one by one in
    pools of their own and an item that kills its process again is yielded with a WorkerCrash result (a violation, not a harness error).
    """
    from concurrent.futures.process import BrokenProcessPool

    items = list(items)
    jobs = min(jobs or NCPU, max(1, len(items)))
    if jobs <= 1 or os.environ.get("VERIF_SERIAL"):
        for it in items:
            st, r = _call(fn, it)
            if st == "err":
                raise RuntimeError(f"worker failed on {it!r}:\n{r}")
            yield it, r
        return
    ctx = mp.get_context("fork")
    pending = list(range(len(items)))
    done_idx = set()
    broken = False
    with ProcessPoolExecutor(max_workers=jobs, mp_context=ctx) as ex:
        futs = {ex.submit(_call, fn, items[i]): i for i in pending}
        done = 0
        try:
            for fu in as_completed(futs):
                i = futs[fu]
                try:
                    st, r = fu.result()
                except BrokenProcessPool:
                    broken = True
                    break
                done += 1
                done_idx.add(i)
                if st == "err":
                    for f2 in futs:
                        f2.cancel()
                    raise RuntimeError(f"worker failed on {items[i]!r}:\n{r}")
                if desc and done % max(1, len(items) // 10) == 0:
                    print(f"  .. {desc}: {done}/{len(items)}", file=sys.stderr, flush=True)
                yield items[i], r
        except BrokenProcessPool:
            broken = True
    if broken:
        rest = [i for i in pending if i not in done_idx]
        print(f"  .. {desc}: a worker process died; re-running {len(rest)} unfinished items in isolated processes", file=sys.stderr, flush=True)
        # isolated re-runs, several at a time (each in its own single-worker pool, driven by threads)
        from concurrent.futures import ThreadPoolExecutor

        with ThreadPoolExecutor(max_workers=max(1, jobs // 2)) as tex:
            for i, (st, r) in zip(rest, tex.map(lambda k: _isolated(fn, items[k]), rest)):
                if st == "err":
                    raise RuntimeError(f"worker failed on {items[i]!r}:\n{r}")
                if st == "crash":
                    yield items[i], WorkerCrash(items[i], r)
                else:
                    yield items[i], r


def stable_hash(obj) -> str:
    return hashlib.sha1(json.dumps(_jsonable(obj), sort_keys=True).encode()).hexdigest()[:16]
