"""C12 - code generation is deterministic and history-independent (DESIGN §4 C12).

Enumerated: ALL histories of depth <= 2 (quick) / <= 3 (thorough) over the alphabet of mc.hist (hist.OPS) (create unrelated
UFL objects; generate an unrelated form / other dtype+options / expression / numba module; run a JIT request; change numpy
print options) x PYTHONHASHSEED in {0,1,2,3} (quick) / {0..15} (thorough) - the histories of maximal depth with {0,1} only -, each in a fresh process; after the history all
target objects are generated in an order rotated per history (the first is observed under exactly that history, the later
ones under the correspondingly longer legitimate histories; every target is first somewhere).
Oracle: byte equality of compile_ufl_objects' output with the empty-history, seed-0 run.
"""

from __future__ import annotations

import itertools
import json

from .. import hist
from ..runner import Check, pmap

PID = "C12"


def histories(depth):
    out = [()]
    for d in range(1, depth + 1):
        out += list(itertools.product(hist.OPS, repeat=d))
    return out


def work(item):
    h, seed, rot = item
    order = hist.TARGETS[rot:] + hist.TARGETS[:rot]
    r = hist.run_history(h, seed, order)
    return dict(history=list(h), seed=seed, order=order, result=r)


def main():
    chk = Check(PID)
    depth = 3 if chk.thorough else 2
    seeds = list(range(16)) if chk.thorough else [0, 1, 2, 3]
    base = hist.run_history((), 0, hist.TARGETS)
    if "error" in base:
        print("HARNESS-ERROR: baseline generation failed:", base["error"][-400:])
        raise SystemExit(2)
    again = hist.run_history((), 0, hist.TARGETS)
    hs = histories(depth)
    items = []
    for i, h in enumerate(hs):
        for s in (seeds if len(h) < depth else seeds[:2]):
            if h == () and s == 0:
                continue
            items.append((h, s, (i + s) % len(hist.TARGETS)))
    tot = dict(processes=len(items) + 2, histories=len(hs), seeds=len(seeds), targets_generated=0, differing=0, errors=0)
    for t in hist.TARGETS:
        if again[t]["sha"] != base[t]["sha"]:
            chk.violation(f"{PID}:{t}:two-identical-processes", f"target {t}: two processes with empty history and PYTHONHASHSEED=0 generate different text",
                          recipe=dict(history=[], seed=0, target=t))
    samples = []
    seen = {}
    for it, r in pmap(work, items, desc="C12"):
        res = r["result"]
        if "error" in res:
            tot["errors"] += 1
            chk.violation(f"{PID}:history-raises:{''.join(r['history'])}", f"after history {r['history']} (hash seed {r['seed']}) code generation fails: {res['error'][-200:]}",
                          recipe=dict(history=r["history"], seed=r["seed"]))
            continue
        for pos, t in enumerate(r["order"]):
            tot["targets_generated"] += 1
            if res[t]["sha"] != base[t]["sha"]:
                tot["differing"] += 1
                # histories that change numpy's print options form a class of their own (text that goes through repr() of an array)
                cause = "hash-seed" if not r["history"] else ("history:P" if "P" in r["history"] else "history" if r["seed"] == 0 else "history+hash-seed")
                k = f"{PID}:{t}:{cause}"
                if k not in seen:
                    seen[k] = 0
                    chk.violation(k, f"target {t}: text generated after history {r['history']} with PYTHONHASHSEED={r['seed']} (position {pos} in the process) differs from the "
                                  f"empty-history seed-0 text ({res[t]['len']} vs {base[t]['len']} bytes)", recipe=dict(history=r["history"], seed=r["seed"], order=r["order"], target=t))
                seen[k] += 1
        if len(samples) < 6 and len(r["history"]) == depth:
            samples.append(dict(history=r["history"], hash_seed=r["seed"], first_target=r["order"][0]))
    cov = dict(states=tot["processes"], transitions=sum(len(it[0]) for it in items), traces_validated_against_impl=tot["targets_generated"], evaluations=tot["targets_generated"],
               distinct_nontrivial=len(hs), totals=tot, differing_by_class=seen, samples=samples or [dict(note="none")], exhaustive=True,
               rule=(f"all {len(hs)} histories of depth <= {depth} over the {len(hist.OPS)}-letter alphabet x {len(seeds)} hash seeds (2 seeds for the histories of maximal depth), one fresh process each; {len(hist.TARGETS)} targets generated per process in rotated order; "
                     "byte comparison with the empty-history seed-0 process"))
    chk.finish(cov, assumptions=["histories and hash seeds are bounded sets: a dependence needing a longer history or another seed is not found",
                                 "a target generated later in the process is observed under the history extended by the earlier targets (also a legitimate history)"])


def replay(path):
    import difflib

    doc = json.load(open(path))
    rec = doc["recipe"]
    t = rec.get("target") or hist.TARGETS[0]
    a = hist.run_history((), 0, [t], keep_text=True)[t]["text"]
    order = rec.get("order") or [t]
    b = hist.run_history(rec["history"], rec["seed"], order, keep_text=True)[t]["text"]
    df = [l for l in difflib.unified_diff(a.splitlines(), b.splitlines(), lineterm="", n=0) if not l.startswith(("---", "+++", "@@"))]
    print(len(df), "differing lines")
    for l in df[:20]:
        print("  ", l[:160])
    return 1 if df else 0
