"""C18 - the numba backend computes the same tensors as the C backend (DESIGN §4 C18).

For every configuration of the corpus (forms and expressions, all math-table entries, all condition operators) the
module generated with language='numba' is executed as plain Python (a shim stands for numba.carray and records the
declared array sizes) and every kernel is called on the same inputs as the compiled C kernel, for every local entity and
code pair of C02's quick mode; outputs must agree to rounding, the module text must be valid Python, the declared
array sizes must equal the harness-computed extents, and all descriptor fields must equal those of the C objects.
Thorough: all four scalar types and a subset through the real numba.cfunc.
"""

from __future__ import annotations

import json
import re
import signal
import types

import basix
import numpy as np

from .. import audit, engine, forms, oracle
from ..runner import Check, pmap

PID = "C18"
KERNEL_TIME = 20


class _Timeout(BaseException):
    pass


class Shim:
    """Stands for the numba module inside generated code executed as plain Python."""

    def __init__(self):
        self.sizes = []  # (declared, actual) per carray call of the current kernel call

    def carray(self, buf, shape):
        n = int(np.prod(shape)) if not isinstance(shape, int) else int(shape)
        if buf is None:
            self.sizes.append((n, None))
            return np.zeros(n)
        self.sizes.append((n, len(buf)))
        return buf


def numba_text(obj_list, scalar):
    import ffcx.compiler
    import ffcx.options

    code, suffixes = ffcx.compiler.compile_ufl_objects(obj_list, options=ffcx.options.get_options({"language": "numba", "scalar_type": scalar}), namespace="mod")
    return code[0]


def load_module(text):
    shim = Shim()
    src = re.sub(r"^import numba\s*$", "", text, flags=re.M)
    ns = {"numba": shim, "__name__": "ffcx_numba_module"}
    exec(compile(src, "<numba-module>", "exec"), ns)
    return ns, shim


def call_numba(fn, shim, scalar, A0, w, c, X, ent, perm, null_entity):
    dt = np.dtype(scalar)
    rdt = engine.RDTYPE[scalar]
    A = np.array(A0, dtype=dt)
    shim.sizes.clear()

    def on_alarm(s, f):
        raise _Timeout()

    old = signal.signal(signal.SIGALRM, on_alarm)
    signal.alarm(KERNEL_TIME)
    try:
        fn(A, np.asarray(w, dtype=dt), np.asarray(c, dtype=dt), np.asarray(X, dtype=rdt),
           None if null_entity else np.asarray(ent, dtype=np.intc), None if null_entity else np.asarray(perm, dtype=np.uint8), 0)
    finally:
        signal.alarm(0)
        signal.signal(signal.SIGALRM, old)
    return A, list(shim.sizes)


def compare_descriptors(cobj, nobj, comp, fails):
    n = comp.offsets[-1]
    pairs = [("rank", cobj.rank, nobj.rank), ("num_coefficients", cobj.num_coefficients, nobj.num_coefficients), ("num_constants", cobj.num_constants, nobj.num_constants),
             ("original_coefficient_positions", comp.positions, list(nobj.original_coefficient_positions or [])),
             ("form_integral_offsets", comp.offsets, list(nobj.form_integral_offsets)),
             ("form_integral_ids", comp.ids, list(nobj.form_integral_ids or [])),
             ("number of kernels", n, len(nobj.form_integrals or [])),
             ("finite_element_hashes", [cobj.finite_element_hashes[i] for i in range(cobj.rank + cobj.num_coefficients)], list(nobj.finite_element_hashes or [])),
             ("constant_ranks", [cobj.constant_ranks[i] for i in range(cobj.num_constants)], list(nobj.constant_ranks or [])),
             ("constant_shapes", [[cobj.constant_shapes[i][j] for j in range(cobj.constant_ranks[i])] for i in range(cobj.num_constants)],
              [list(s) if s is not None else [] for s in (nobj.constant_shapes or [])])]
    for name, a, b in pairs:
        if a != b:
            fails.append(dict(kind="descriptor:" + name, text=f"descriptor field {name}: C backend {a} but numba backend {b}"))
    for k in range(min(n, len(nobj.form_integrals or []))):
        ck, nk = comp.kernels[k], nobj.form_integrals[k]
        ec = [bool(ck.enabled_coefficients[i]) for i in range(cobj.num_coefficients)]
        en = [bool(x) for x in nk.enabled_coefficients]
        for name, a, b in (("enabled_coefficients", ec, en), ("needs_facet_permutations", bool(ck.needs_facet_permutations), bool(nk.needs_facet_permutations)),
                           ("domain", int(ck.domain), int(nk.domain)), ("coordinate_element_hash", int(ck.coordinate_element_hash), int(nk.coordinate_element_hash))):
            if a != b:
                fails.append(dict(kind="descriptor:" + name, text=f"kernel {k}: {name}: C backend {a} but numba backend {b}"))


def work(item):
    kind, key, payload, scalar, seed = item
    res = dict(key=key, status="ok", calls=0, skipped_slow=0, maxdev=0.0, failures=[])
    try:
        if kind == "cfg":
            B = forms.build(payload)
            form, mesh, cell, geom = B.form, B.mesh, B.cell, payload.get("geom", "affine")
        else:
            from . import C09

            name, cell, arity = payload
            form, mesh = C09.math_form(name, cell, arity)
            geom = "affine"
    except Exception:
        res["status"] = "inapplicable"
        return res
    try:
        fo = oracle.FormOracle(form, cmplx="complex" in scalar)
        comp = engine.Compiled(form, scalar)
    except Exception as e:
        res["status"] = "rejected"
        res["why"] = f"{type(e).__name__}: {str(e)[:100]}"
        return res
    try:
        try:
            text = numba_text([form], scalar)
        except Exception as e:
            res["failures"].append(dict(kind="numba-generation-raises", text=f"C backend accepts the form but numba code generation raises {type(e).__name__}: {str(e)[:160]}"))
            res["status"] = "violation"
            return res
        try:
            ns, shim = load_module(text)
        except SyntaxError as e:
            res["failures"].append(dict(kind="invalid-python", text=f"generated numba module is not valid Python: {e.msg} at line {e.lineno}: {(e.text or '').strip()[:100]}"))
            res["status"] = "violation"
            return res
        except Exception as e:
            res["failures"].append(dict(kind="module-does-not-load", text=f"generated numba module fails at import: {type(e).__name__}: {str(e)[:160]}"))
            res["status"] = "violation"
            return res
        nobj = ns.get("form_mod_0")
        if nobj is None:
            res["failures"].append(dict(kind="alias-missing", text="alias form_mod_0 not defined by the numba module"))
            res["status"] = "violation"
            return res
        compare_descriptors(comp.obj, nobj, comp, res["failures"])
        if res["failures"]:
            res["status"] = "violation"
            return res
        rng = np.random.default_rng([seed, 23])
        cm = "complex" in scalar
        tol = 1e-11 if "64" in scalar and scalar != "complex64" or scalar == "complex128" else 2e-4
        for t, itype in enumerate(engine.UFCX_TYPES[:4]):
            for k in range(comp.offsets[t], comp.offsets[t + 1]):
                sides = ("+", "-") if itype == "interior_facet" else (None,)
                (inst, X0), = engine.geometry_instances(mesh, cell, geom, rng, ("aff",))
                Xs = [X0] + ([X0 * 0.9 + 0.05 + rng.uniform(-0.02, 0.02, size=X0.shape)] if len(sides) == 2 else [])
                w, c = engine.draw_data(fo, rng, sides, cm)
                wv, cv = engine.pack(fo, comp, w, c, sides)
                X = engine.pack_geometry(Xs)
                shape = fo.tensor_shape(itype)
                nA = int(np.prod(shape)) if shape else 1
                kern = comp.kernels[k]
                evs = []
                for ents, codes in engine.entity_choices(fo, itype, "quick"):
                    ecell = fo.entity_cell(itype, ents[0])
                    tag = 0 if ecell == "point" else int(getattr(basix.CellType, ecell))
                    if tag == kern.domain:
                        evs.append((ents, codes))
                if len(evs) > 12:
                    step = len(evs) / 12
                    evs = [evs[int(i * step)] for i in range(12)]
                for ents, codes in evs:
                    A0 = np.linspace(0.25, 0.75, nA)
                    e_arr = ents[: len(sides)] if itype != "cell" else (0,)
                    p_arr = codes[: len(sides)] if itype == "interior_facet" else (0, 0)
                    call = engine.Call(scalar, A0, wv, cv, X, e_arr, p_arr, null_entity=(itype == "cell"))
                    call.run(kern)
                    Ac = call.result()
                    try:
                        An, sizes = call_numba(nobj.form_integrals[k].tabulate_tensor, shim, scalar, A0, wv, cv, X, e_arr, p_arr, itype == "cell")
                    except _Timeout:
                        res["skipped_slow"] += 1
                        break
                    except Exception as e:
                        res["failures"].append(dict(kind="numba-kernel-raises", text=f"{itype} kernel {k} entities={ents}: numba kernel raises {type(e).__name__}: {str(e)[:140]}"))
                        break
                    res["calls"] += 1
                    want = [nA, len(wv), len(cv), len(X)]
                    got = [s[0] for s in sizes[:4]]
                    if got != want:
                        res["failures"].append(dict(kind="declared-sizes", text=f"{itype} kernel {k}: numba.carray sizes (A, w, c, coordinate_dofs) declared {got} but the form implies {want}"))
                        break
                    need_e, need_p = (0 if itype == "cell" else len(sides)), (2 if itype == "interior_facet" else 0)
                    if len(sizes) >= 6 and (sizes[4][0] < need_e or sizes[5][0] < need_p):
                        res["failures"].append(dict(kind="declared-sizes", text=f"{itype} kernel {k}: entity/permutation arrays declared {sizes[4][0]}/{sizes[5][0]}, needed {need_e}/{need_p}"))
                        break
                    sc = max(float(np.max(np.abs(Ac))), 1e-30)
                    dev = float(np.max(np.abs(np.asarray(An) - Ac))) / sc
                    if not np.all(np.isfinite(An)):
                        dev = np.inf
                    res["maxdev"] = max(res["maxdev"], dev)
                    if dev > tol:
                        res["failures"].append(dict(kind="kernel-differs", text=f"{itype} kernel {k} entities={ents} codes={codes}: numba result differs from the C kernel by {dev:.2e} (relative)"))
                        break
                if res["failures"]:
                    break
            if res["failures"]:
                break
        if res["failures"]:
            res["status"] = "violation"
        return res
    finally:
        comp.cleanup()


def work_expr(item):
    import shutil
    import tempfile

    import ffcx.codegeneration.jit as jit
    import ufl

    from ..runner import scratch_root
    from . import C04

    kind, key, cfg, scalar, seed = item
    res = dict(key=key, status="ok", calls=0, skipped_slow=0, maxdev=0.0, failures=[])
    try:
        mesh, e, P, coefs, consts, cdeg, gdim = C04.build(cfg)
    except Exception:
        res["status"] = "inapplicable"
        return res
    cache = tempfile.mkdtemp(prefix="jitx_", dir=scratch_root())
    try:
        try:
            (xo,), module, code = jit.compile_expressions([(e, P)], options={"scalar_type": scalar}, cache_dir=cache)
        except Exception:
            res["status"] = "rejected"
            return res
        try:
            text = numba_text([(e, P)], scalar)
            ns, shim = load_module(text)
        except SyntaxError as ex:
            res["failures"].append(dict(kind="invalid-python", text=f"generated numba module is not valid Python: {ex.msg}: {(ex.text or '').strip()[:100]}"))
            res["status"] = "violation"
            return res
        except Exception as ex:
            res["failures"].append(dict(kind="numba-generation-raises", text=f"numba backend fails for an expression the C backend accepts: {type(ex).__name__}: {str(ex)[:140]}"))
            res["status"] = "violation"
            return res
        xn = [v for k, v in ns.items() if k.startswith("expression_") and isinstance(v, type)]
        if not xn:
            res["failures"].append(dict(kind="alias-missing", text="no expression class in the numba module"))
            res["status"] = "violation"
            return res
        xn = xn[0]
        for name in ("num_coefficients", "num_constants", "num_points", "entity_dimension", "num_components", "rank"):
            a, b = getattr(xo, name), getattr(xn, name, None)
            if a != b:
                res["failures"].append(dict(kind="descriptor:" + name, text=f"expression descriptor {name}: C {a} vs numba {b}"))
        if res["failures"]:
            res["status"] = "violation"
            return res
        cell = cfg["cell"]
        tdim = forms.TDIM[cell]
        rng = np.random.default_rng([seed, 29])
        cm = "complex" in scalar
        oc = ufl.algorithms.extract_coefficients(e)
        okc = ufl.algorithms.analysis.extract_constants(e)
        pos = [xo.original_coefficient_positions[i] for i in range(xo.num_coefficients)]
        (inst, X), = engine.geometry_instances(mesh, cell, cfg["geom"], rng, ("aff",))
        wv = np.concatenate([rng.uniform(0.6, 1.4, size=oc[p].ufl_element().dim) + (1j * rng.uniform(-0.3, 0.3, size=oc[p].ufl_element().dim) if cm else 0) for p in pos]) if pos else np.zeros(0)
        cv = np.concatenate([rng.uniform(0.5, 1.5, size=int(np.prod(k.ufl_shape)) if k.ufl_shape else 1) for k in okc]) if okc else np.zeros(0)
        args = ufl.algorithms.extract_arguments(e)
        nA = P.shape[0] * (int(np.prod(e.ufl_shape)) if e.ufl_shape else 1) * (args[0].ufl_function_space().ufl_element().dim if args else 1)
        facet = P.shape[1] != tdim
        combos = [(0, 0)] if not facet else [(f, cd) for f in range(oracle.num_entities(cell, tdim - 1)) for cd in range(oracle.num_permutation_codes(oracle.entity_cellname(cell, tdim - 1, 0)))]
        tol = 1e-11 if scalar in ("float64", "complex128") else 2e-4
        for fc, cd in combos:
            A0 = np.linspace(0.25, 0.75, nA)
            call = engine.Call(scalar, A0, wv, cv, engine.pack_geometry([X]), (fc,), (cd, 0), null_entity=not facet)
            call.run(xo)
            Ac = call.result()
            try:
                An, sizes = call_numba(xn.tabulate_tensor, shim, scalar, A0, wv, cv, engine.pack_geometry([X]), (fc,), (cd, 0), not facet)
            except _Timeout:
                res["skipped_slow"] += 1
                break
            except Exception as ex:
                res["failures"].append(dict(kind="numba-kernel-raises", text=f"expression kernel (facet={fc}, code={cd}): numba kernel raises {type(ex).__name__}: {str(ex)[:140]}"))
                break
            res["calls"] += 1
            sc = max(float(np.max(np.abs(Ac))), 1e-30)
            dev = float(np.max(np.abs(np.asarray(An) - Ac))) / sc
            res["maxdev"] = max(res["maxdev"], dev)
            if dev > tol or not np.all(np.isfinite(An)):
                res["failures"].append(dict(kind="kernel-differs", text=f"expression kernel (facet={fc}, code={cd}): numba result differs from the C kernel by {dev:.2e}"))
                break
        if res["failures"]:
            res["status"] = "violation"
        return res
    finally:
        shutil.rmtree(cache, ignore_errors=True)


def _dispatch(item):
    return work_expr(item) if item[0] == "xcfg" else work(item)


def main():
    chk = Check(PID)
    from . import C04, C09

    nodes, edges = audit.corpus(chk.thorough)
    cfgs = list(nodes.items())
    scalars = engine.SCALARS if chk.thorough else ("float64",)
    items = []
    for sc in scalars:
        for k, cfg in (cfgs if sc == "float64" else cfgs[::4]):
            if not chk.thorough and cfg["cell"] in ("hexahedron",) and cfg["test"] not in ("P1", "DG0", "DG1"):
                continue  # plain-Python execution of large hexahedral kernels is slow; covered in the thorough tier
            items.append(("cfg", f"{k}[{sc}]", cfg, sc, chk.seed))
    for k, cfg in cfgs[::5]:
        items.append(("cfg", f"{k}[complex128]", cfg, "complex128", chk.seed))
    for name in C09.MATH:
        for ar in (2, 1, 0):
            for sc in ("float64", "complex128"):
                items.append(("math", f"math:{name}:arity{ar}[{sc}]", (name, "triangle", ar), sc, chk.seed))
    xn, _ = C04.explore(1)
    for k, cfg in xn.items():
        if chk.thorough or cfg["cell"] in ("triangle", "tetrahedron", "quadrilateral", "interval"):
            items.append(("xcfg", "expr:" + k, cfg, cfg["scalar"], chk.seed))
    tot = dict(items=len(items), ok=0, inapplicable=0, rejected=0, violating=0, kernel_calls=0, skipped_slow=0)
    samples = []
    for it, r in pmap(_dispatch, items, desc="C18"):
        tot["kernel_calls"] += r["calls"]
        tot["skipped_slow"] += r["skipped_slow"]
        if r["status"] == "violation":
            tot["violating"] += 1
            f = r["failures"][0]
            chk.violation(f"{PID}:{r['key']}:{f['kind']}", f["text"], recipe=dict(item=[it[0], it[1], it[2] if not isinstance(it[2], tuple) else list(it[2]), it[3], it[4]]), observed=r["failures"][:3])
        else:
            tot[r["status"]] += 1
            if r["status"] == "ok" and len(samples) < 6 and r["calls"] > 2:
                samples.append(dict(item=r["key"], kernel_calls=r["calls"], max_rel_dev=r["maxdev"]))
    cov = dict(states=len(items), transitions=tot["kernel_calls"], traces_validated_against_impl=tot["ok"] + tot["violating"], evaluations=tot["kernel_calls"],
               distinct_nontrivial=tot["ok"], totals=tot, samples=samples or [dict(note="none")], exhaustive=True,
               rule=("every configuration of the form corpus, every math-table entry x arity x {float64, complex128} and every expression recipe: numba module executed as plain Python "
                     "(shim for numba.carray recording declared sizes) vs the compiled C kernel on identical inputs for every entity / code pair (<= 12 per kernel), descriptors compared field by field"))
    chk.finish(cov, assumptions=["plain-Python execution of the generated module with a carray shim stands for numba.cfunc (same source text, Python semantics)",
                                 "kernels whose plain-Python execution exceeds the time limit are skipped and counted"])


def replay(path):
    doc = json.load(open(path))
    it = doc["recipe"]["item"]
    r = _dispatch((it[0], it[1], tuple(it[2]) if it[0] == "math" else it[2], it[3], it[4]))
    print(r["status"], r.get("why", ""))
    for f in r["failures"]:
        print("  ", f["text"])
    return 1 if r["status"] == "violation" else 0
