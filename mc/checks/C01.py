"""C01 - cell-integral kernels compute the form's element tensor: deviation-graph BFS around the dx baselines of
all six cells, every node compared with the reference model R on three geometry instances (DESIGN §4 C01)."""

from .. import bcheck, space
from ..runner import Check

PID = "C01"


def closed_form_anchors(chk):
    """R itself is anchored on things that need neither R's interpreter nor FFCx: monomial integrals, volumes."""
    import math

    import basix
    import numpy as np

    from .. import oracle

    n = 0
    for cell, exact in (("interval", lambda a: 1 / (a[0] + 1)),
                        ("triangle", lambda a: math.factorial(a[0]) * math.factorial(a[1]) / math.factorial(a[0] + a[1] + 2)),
                        ("tetrahedron", lambda a: math.factorial(a[0]) * math.factorial(a[1]) * math.factorial(a[2]) / math.factorial(sum(a) + 3)),
                        ("quadrilateral", lambda a: 1 / ((a[0] + 1) * (a[1] + 1))),
                        ("hexahedron", lambda a: 1 / ((a[0] + 1) * (a[1] + 1) * (a[2] + 1)))):
        td = oracle.TDIM[cell]
        for q in range(0, 7):
            pts, wts = basix.make_quadrature(oracle.celltype(cell), q)
            for a in __import__("itertools").product(range(q + 1), repeat=td):
                if (sum(a) if cell in ("interval", "triangle", "tetrahedron") else max(a)) > q:
                    continue
                val = float(np.sum(wts * np.prod(pts ** np.array(a), axis=1)))
                n += 1
                if abs(val - exact(a)) > 1e-13:
                    raise SystemExit(f"HARNESS-ERROR: quadrature anchor failed {cell} q={q} monomial={a}: {val} vs {exact(a)}")
    return n


def main():
    chk = Check(PID)
    radius = 2 if chk.thorough else 1
    bases = [space.baseline(c, "dx") for c in space.CELLS]
    nodes, edges, by = space.explore(bases, radius, exclude_dims=("restr",))
    anchors = closed_form_anchors(chk)
    counts, samples, rejected, unsupported = bcheck.run_configs(chk, nodes, kw=dict(entity_mode="sweep"), desc="C01")
    cov = dict(
        states=len(nodes), transitions=edges, traces_validated_against_impl=counts["ok"] + counts["violating"],
        evaluations=counts["kernel_calls"], distinct_nontrivial=counts["nontrivial_configs"],
        radius=radius, nodes_by_distance=by, counts=counts, closed_form_anchor_checks=anchors,
        rejected_by_ffcx=rejected[:40], oracle_unsupported=unsupported[:40], samples=samples or [dict(note="no sample with >3 calls")],
        exhaustive=True,
        rule=("nodes = configurations within Hamming radius d of the dx baseline of each cell over the dimensions of DESIGN §3 "
              "(radius-2 second deviations from the core value lists); every node is compiled through jit.compile_forms and every kernel is "
              "called on 3 geometry instances; non-trivial = reference tensor not identically zero"),
    )
    chk.finish(cov, assumptions=[
        "continuous inputs come from a finite alphabet (3 geometry instances per class, one seeded data draw per instance)",
        "reference model R: UFL preprocessing + core basix tabulation/quadrature + numpy; anchored on closed-form monomial integrals",
    ])


def replay(path):
    return bcheck.replay_config(path)
