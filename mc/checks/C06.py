"""C06 - the form descriptor dispatches each (type, subdomain id) to the right kernel (DESIGN §4 C06).

Enumerated: ALL ordered sequences of <= 2 (quick) / <= 3 (thorough) integrals over the alphabet
{dx, ds, dS, dP} x {everywhere, 0, 2, (0,2)} x {auto, degree 2} on a triangle (32 letters) and over the 24-letter alphabet
without dS on a prism (two kernels per facet integral), the k-th integral of a sequence carrying the weight 2^k (subset
sums identify exactly which integrals a kernel list added), plus requests with several forms per module.
Dispatch model: for type t and id s the kernels in [offsets[t], offsets[t+1]) with id s, applied one after another, must
add the sum of R(integral) over the integrals of type t whose id set contains s ('everywhere' only under -1); no (t, id)
may be listed that the form does not define; ids non-decreasing inside a group; offsets monotone, 6 entries, ending at the
number of kernels listed; rank, counts, constant ranks/shapes, name maps, element hashes, coordinate hash and the
per-kernel cell-type tag recomputed from the form.
"""

from __future__ import annotations

import itertools
import json
import re

import basix
import basix.ufl
import numpy as np
import ufl

from .. import engine, oracle
from ..runner import Check, pmap

PID = "C06"
TYPES = ["dx", "ds", "dS", "dP"]
IDS = ["all", 0, 2, (0, 2)]
RULES = ["auto", "deg2"]


def alphabet(cell):
    types = TYPES if cell != "prism" else ["dx", "ds", "dP"]
    return [(t, i, r) for t in types for i in IDS for r in RULES]


def build(cell, seq, named=False):
    d = oracle.TDIM[cell]
    mesh = ufl.Mesh(basix.ufl.element("P", cell, 1, shape=(d,)))
    V = ufl.FunctionSpace(mesh, basix.ufl.element("P", cell, 1))
    v = ufl.TestFunction(V)
    f = ufl.Coefficient(V)
    g = ufl.Coefficient(ufl.FunctionSpace(mesh, basix.ufl.element("P", cell, 2)))
    k0 = ufl.Constant(mesh)
    k1 = ufl.Constant(mesh, shape=(d,))
    k2 = ufl.Constant(mesh, shape=(d, d))
    k3 = ufl.Constant(mesh)
    form = None
    M = {"dx": ufl.dx, "ds": ufl.ds, "dS": ufl.dS, "dP": ufl.dP}
    for n, letter in enumerate(seq):
        t, sid, rule = letter[:3]
        if len(letter) > 3:
            n = letter[3]  # weight class given explicitly: integrals of one class have EQUAL integrands (UFL merges them into tuple-id groups)
        kw = dict(domain=mesh)
        if rule == "deg2":
            if t == "dP":
                pass
            else:
                kw["metadata"] = {"quadrature_degree": 2}
        m = M[t](**kw) if sid == "all" else M[t](tuple(sid) if isinstance(sid, (tuple, list)) else sid, **kw)
        vv = v("+") if t == "dS" else v
        ff = f("-") if t == "dS" else f
        # weight 2^n; every second integral also involves a coefficient / constant so that descriptor counts are exercised
        integrand = float(2 ** n) * vv
        if n % 2 == 1:
            # scalar, vector, matrix, scalar constants in this order (descriptor ranks/shapes must stay aligned)
            integrand = integrand * (1.0 + 0 * ff) + float(2 ** n) * 1e-3 * (ff * k0 + k1[d - 1] + k2[0, d - 1] * k3) * vv
        term = integrand * m
        form = term if form is None else form + term
    return form, mesh, dict(f=f, g=g, k0=k0, k1=k1, k2=k2, k3=k3)


def key(cell, seq):
    def one(x):
        t, sid, r = x[:3]
        s = "" if sid == "all" else ("(" + ",".join(map(str, sid)) + ")" if isinstance(sid, (tuple, list)) else f"({sid})")
        return f"{t}{s}{'@2' if r == 'deg2' else ''}{'w%d' % x[3] if len(x) > 3 else ''}"
    return cell + ":" + "+".join(one(x) for x in seq)


def structural(comp, fo, form, cell, res):
    """Descriptor fields recomputed from the form."""
    f = comp.obj
    src = comp.code[1]
    offs = comp.offsets
    fails = res["failures"]
    m = re.search(r"form_integrals_form_\w+\[(\d+)\]", src)
    n_listed = int(m.group(1)) if m else 0
    if any(b < a for a, b in zip(offs, offs[1:])) or offs[0] != 0:
        fails.append(dict(kind="offsets-not-monotone", text=f"form_integral_offsets {offs} is not monotone from 0"))
    if offs[-1] != n_listed:
        fails.append(dict(kind="offsets-miscount", text=f"form_integral_offsets {offs} ends at {offs[-1]} but {n_listed} kernels are listed in form_integrals: "
                          f"the last {n_listed - offs[-1]} kernel(s) cannot be reached"))
    for t in range(5):
        ids = comp.ids[offs[t]:offs[t + 1]]
        if ids != sorted(ids):
            fails.append(dict(kind="ids-not-sorted", text=f"ids of {engine.UFCX_TYPES[t]} integrals are not non-decreasing: {ids}"))
    want = set(fo.targets())
    got = {(engine.UFCX_TYPES[t], comp.ids[k]) for t in range(5) for k in range(offs[t], offs[t + 1])}
    if got - want:
        fails.append(dict(kind="extra-entries", text=f"descriptor lists (type, id) pairs the form does not define: {sorted(got - want)}"))
    if want - got:
        fails.append(dict(kind="missing-entries", text=f"(type, id) pairs of the form that cannot be reached through the descriptor: {sorted(want - got)} (offsets {offs}, ids {comp.ids})"))
    # per-kernel cell type tag: must be a sub-entity type of the right dimension of the cell
    ct = oracle.celltype(cell)
    td = oracle.TDIM[cell]
    for t, itype in enumerate(engine.UFCX_TYPES[:4]):
        edim = oracle.ENTITY_DIM[itype](td)
        allowed = {int(x) for x in basix.cell.subentity_types(ct)[edim]}
        tags = [comp.kernels[k].domain for k in range(offs[t], min(offs[t + 1], n_listed))]
        if any(tg not in allowed for tg in tags):
            fails.append(dict(kind="domain-tag", text=f"{itype} kernels carry cell-type tags {tags}, allowed {sorted(allowed)}"))
        # every (id) must list each needed entity type exactly once
        for sid in {comp.ids[k] for k in range(offs[t], offs[t + 1])}:
            tg = sorted(comp.kernels[k].domain for k in range(offs[t], offs[t + 1]) if comp.ids[k] == sid)
            n_itd = len(fo.itds_for(itype, sid))
            if tg != sorted(list(allowed) * n_itd):
                fails.append(dict(kind="kernels-per-id", text=f"({itype}, {sid}) lists kernels with tags {tg}; the form has {n_itd} integral group(s) there and entity types {sorted(allowed)}"))
    if f.rank != len(fo.arguments):
        fails.append(dict(kind="rank", text=f"rank {f.rank} != {len(fo.arguments)}"))
    if f.num_coefficients != len(fo.coefficients):
        fails.append(dict(kind="num_coefficients", text=f"num_coefficients {f.num_coefficients} != {len(fo.coefficients)}"))
    wantpos = [fo.original_coefficients.index(c) for c in fo.coefficients]
    if comp.positions != wantpos:
        fails.append(dict(kind="positions", text=f"original_coefficient_positions {comp.positions} != {wantpos}"))
    if f.num_constants != len(fo.constants):
        fails.append(dict(kind="num_constants", text=f"num_constants {f.num_constants} != {len(fo.constants)}"))
    else:
        for i, kc in enumerate(fo.constants):
            rk = f.constant_ranks[i]
            shp = [f.constant_shapes[i][j] for j in range(rk)]
            if rk != len(kc.ufl_shape) or shp != list(kc.ufl_shape):
                fails.append(dict(kind="constant-shape", text=f"constant {i}: rank/shape {rk}/{shp} != {list(kc.ufl_shape)}"))
    hashes = [f.finite_element_hashes[i] for i in range(f.rank + f.num_coefficients)]
    els = fo.arg_elements + [c.ufl_element() for c in fo.coefficients]
    wanth = [e.basix_hash() for e in els]
    if hashes != wanth:
        fails.append(dict(kind="element-hashes", text="finite_element_hashes differ from the hashes of the argument / coefficient elements"))
    ch = fo.coord_el.basix_hash()
    for k in range(min(offs[-1], n_listed)):
        if comp.kernels[k].coordinate_element_hash != ch:
            fails.append(dict(kind="coordinate-hash", text=f"kernel {k}: coordinate_element_hash differs from the mesh's coordinate element"))
            break


def work(item):
    kind, cell, seq, seed = item
    res = dict(key=key(cell, seq), status="ok", calls=0, nontrivial=0, failures=[])
    form, mesh, objs = build(cell, seq)
    try:
        fo = oracle.FormOracle(form)
    except Exception as e:
        res["status"] = "inapplicable"
        res["why"] = str(e)[:80]
        return res
    try:
        comp = engine.Compiled(form, "float64")
    except Exception as e:
        res["status"] = "rejected"
        res["why"] = f"{type(e).__name__}: {str(e)[-160:]}"
        return res
    try:
        structural(comp, fo, form, cell, res)
        r = engine.check_form_against_oracle(form, mesh, cell, "affine", "float64", None, seed, entity_mode="quick", instances=("aff",), comp=comp, max_calls=12)
        res["calls"] = r.get("evaluations", 0)
        res["nontrivial"] = r.get("nontrivial", 0)
        for f in r.get("failures", []):
            res["failures"].append(dict(kind="dispatch-" + f["kind"], text=f["text"]))
        if res["failures"]:
            res["status"] = "violation"
        return res
    finally:
        comp.cleanup()


def work_multi(item):
    """Several forms in one module: each form's descriptor must dispatch its own integrals."""
    import shutil
    import tempfile

    import ffcx.codegeneration.jit as jit

    from ..runner import scratch_root

    kind, cell, seqs, seed = item
    res = dict(key="multi:" + "|".join(key(cell, s) for s in seqs), status="ok", calls=0, nontrivial=0, failures=[])
    built = [build(cell, s) for s in seqs]
    flist = [b[0] for b in built]
    for i, (form, mesh, _) in enumerate(built):
        st, out, info = engine.collect_outputs(form, mesh, cell, "affine", "float64", None, seed, forms_list=flist, index=i)
        st1, out1, _ = engine.collect_outputs(form, mesh, cell, "affine", "float64", None, seed)
        if st != "ok" or st1 != "ok":
            res["status"] = "rejected"
            res["why"] = str(info)[:100]
            return res
        res["calls"] += len(out)
        for kk, (A, shape, br, nk) in out.items():
            A1 = out1[kk][0]
            sc = max(float(np.max(np.abs(A1))), 1e-30)
            if float(np.max(np.abs(A - A1))) / sc > 1e-12 or nk != out1[kk][3]:
                res["failures"].append(dict(kind="multi-form", text=f"form #{i} of a {len(flist)}-form module dispatches {kk[:2]} differently from the same form compiled alone"))
                res["status"] = "violation"
                return res
    res["nontrivial"] = len(flist)
    return res


def _dispatch(item):
    return work_multi(item) if item[0] == "multi" else work(item)


def main():
    chk = Check(PID)
    maxlen = 3 if chk.thorough else 2
    items = []
    for cell in ("triangle", "prism"):
        alpha = alphabet(cell)
        for n in range(1, maxlen + 1):
            if n == 3:
                # length 3: all ordered triples over the reduced alphabet {type} x {all, 0, (0,2)} x {auto} plus one deg2 letter per type
                red = [a for a in alpha if (a[2] == "auto" and a[1] != 2) or (a[2] == "deg2" and a[1] == 0)]
                seqs = itertools.product(red, repeat=3)
            elif n == 2 and not chk.thorough:
                # quick: all ordered pairs over {type} x {id set} with the automatic rule, plus every pair (auto, degree 2) of the same (type, id)
                red = [a for a in alpha if a[2] == "auto"]
                # ... plus every (auto, degree 2) pair of the same type over all pairs of id sets, both orders (overlapping ids, different rules)
                seqs = list(itertools.product(red, repeat=2))
                for a in red:
                    for b in red:
                        if a[0] == b[0]:
                            seqs.append((a, (b[0], b[1], "deg2")))
                            seqs.append(((b[0], b[1], "deg2"), a))
            else:
                seqs = itertools.product(alpha, repeat=n)
            for seq in seqs:
                items.append(("seq", cell, list(seq), chk.seed))
    # merge family: integrals with EQUAL integrands over interleaving id sets - UFL merges them into tuple-id groups, so the order in which the
    # IR lists ids is a non-trivial permutation of the sorted order (3-cycles and longer): all ordered triples over 6 id sets x weight-class patterns
    MIDS = [(1, 7), (2, 5), (3,), (1, 2, 3), "all", (2,)]
    wpatterns = [(0, 0, 0), (0, 1, 0)] if not chk.thorough else [(0, 0, 0), (0, 1, 0), (0, 0, 1), (1, 0, 0)]
    for cell, types in (("triangle", ["dx", "ds", "dS"] if chk.thorough else ["dx", "ds"]), ("prism", ["ds"] if chk.thorough else [])):
        for t in types:
            for wp in (wpatterns if t == "dx" or chk.thorough else wpatterns[:1]):
                for ids in itertools.product(MIDS, repeat=3):
                    items.append(("seq", cell, [(t, i, "auto", w) for i, w in zip(ids, wp)], chk.seed))
    a = alphabet("triangle")
    for s1, s2 in [((a[0],), (a[9], a[3])), ((a[16], a[0]), (a[0],)), ((a[2], a[8]), (a[24], a[1]))]:
        items.append(("multi", "triangle", [list(s1), list(s2)], chk.seed))
    items.append(("multi", "prism", [[alphabet("prism")[8], alphabet("prism")[16]], [alphabet("prism")[0]]], chk.seed))
    tot = dict(forms=len(items), ok=0, rejected=0, inapplicable=0, violating=0, kernel_calls=0, nontrivial=0)
    samples, rejected = [], []
    for it, r in pmap(_dispatch, items, desc="C06"):
        tot["kernel_calls"] += r["calls"]
        if r["status"] == "ok":
            tot["ok"] += 1
            tot["nontrivial"] += 1 if r["nontrivial"] else 0
            if len(samples) < 6 and len(it[2]) > 1:
                samples.append(dict(form=r["key"], kernel_calls=r["calls"]))
        elif r["status"] == "violation":
            tot["violating"] += 1
            f = r["failures"][0]
            chk.violation(f"{PID}:{r['key']}:{f['kind']}", f["text"], recipe=dict(item=[it[0], it[1], it[2], it[3]]), observed=r["failures"][:4])
        else:
            tot[r["status"]] += 1
            rejected.append((r["key"], r.get("why", "")))
    cov = dict(states=len(items), transitions=tot["kernel_calls"], traces_validated_against_impl=tot["ok"] + tot["violating"], evaluations=tot["kernel_calls"],
               distinct_nontrivial=tot["nontrivial"], totals=tot, rejected=rejected[:20], samples=samples or [dict(note="none")], exhaustive=True,
               rule=(f"all ordered sequences of <= {maxlen} integrals over the 32-letter (triangle) / 24-letter (prism) alphabet type x id-set x rule (quick: pairs over the 16/12 automatic-rule letters plus all same-type auto/degree-2 pairs over all pairs of id sets; length 3: reduced alphabet), "
                     "weights 2^k; merge family: all ordered triples over the id sets (1,7),(2,5),(3),(1,2,3),everywhere,(2) with equal / partly equal integrands (UFL merges them into interleaving tuple-id groups); per form every (type, id) target x every local entity (x code pairs) compared with R and all descriptor fields recomputed from the form"))
    chk.finish(cov, assumptions=["dispatch judged through the documented lookup: kernels in [offsets[t], offsets[t+1]) with the given id, filtered by the integration-entity cell-type tag",
                                 "name maps are checked in C20 (named objects exist only on the command-line / compile_ufl_objects path)"])


def replay(path):
    doc = json.load(open(path))
    it = doc["recipe"]["item"]
    r = _dispatch((it[0], it[1], [tuple(x) if not isinstance(x[0], list) else [tuple(y) for y in x] for x in it[2]] if it[0] == "multi" else [tuple(x) for x in it[2]], it[3]))
    print(r["status"], r.get("why", ""))
    for f in r["failures"]:
        print("  ", f["text"])
    return 1 if r["status"] == "violation" else 0
