"""C03 - interior-facet results do not depend on the cells' local vertex numbering (DESIGN §4 C03).

Two affine physical cells sharing a facet; ALL pairs of valid local numberings of the two cells are enumerated
(2x2 interval, 6x6 triangle, 24x24 tetrahedron, 8x8 quadrilateral, 48x48 hexahedron).  For each pair the harness finds,
with its own geometry, every pair of permutation codes that makes the two sides' facet points coincide physically
(convention written in mc/oracle.permute_points) and calls the kernel with each of them.  Coefficients / arguments are
interpolants of fixed global polynomials, so M, v_h^T b and v_h^T A u_h are numbering-independent physical numbers:
every call must give the same number, which must also equal an independent physical-space quadrature of the integrand
(own evaluator on the un-preprocessed UFL expression with analytic polynomials and geometric normals).
Second part: kernels flagged needs_facet_permutations == false must return the same result (to rounding, 1e-11) for ALL
code pairs on all facet pairs.  (Bit-identity is not demanded: one-sided kernels still index their tables by the code, and a
symmetric rule visited in another order differs in the last bits; see DESIGN §5 "false alarms corrected".)
"""

from __future__ import annotations

import itertools
import json

import basix
import basix.ufl
import numpy as np
import ufl

from .. import engine, oracle
from ..runner import Check, pmap

PID = "C03"
TD = oracle.TDIM


# ---------------------------------------------------------------------------------------------------
# geometry: two cells sharing a facet, all valid numberings
# ---------------------------------------------------------------------------------------------------
def ref_vertices(cell):
    return np.asarray(basix.geometry(oracle.celltype(cell)))


def symmetries(cell):
    """All vertex permutations sigma such that v_i -> v_sigma(i) extends to an affine map of the reference cell."""
    V = ref_vertices(cell)
    n, d = V.shape
    H = np.hstack([V, np.ones((n, 1))])
    out = []
    for sig in itertools.permutations(range(n)):
        W = V[list(sig)]
        sol, res, rk, _ = np.linalg.lstsq(H, W, rcond=None)
        if np.allclose(H @ sol, W, atol=1e-12) and abs(np.linalg.det(sol[:d])) > 1e-9:
            out.append(sig)
    return out


def two_cells(cell):
    """Global vertex coordinates and the base (identity) numbering of two affine cells sharing a facet."""
    V = ref_vertices(cell)
    d = TD[cell]
    M = {1: np.array([[1.3]]), 2: np.array([[1.2, 0.35], [0.15, 0.9]]), 3: np.array([[1.1, 0.2, 0.1], [0.15, 0.95, -0.1], [0.05, 0.25, 1.05]])}[d]
    b = np.array([0.2, -0.1, 0.3])[:d]
    if cell in ("interval", "triangle", "tetrahedron"):
        # K+ = affine image of the reference simplex; K- = facet opposite vertex 0 of K+ plus one new vertex
        extra = V[1:].mean(axis=0) * 2.0 + 0.1  # beyond the facet opposite to vertex 0
        G = np.vstack([V, extra]) @ M.T + b
        nv = len(V)
        plus = list(range(nv))
        minus = list(range(1, nv)) + [nv]
        # '-' numbering must make a positively/any oriented simplex: any order is a valid affine simplex
        return G, plus, minus
    # tensor cells: K- = K+ translated by one unit along the first axis (shares the face x0 = 1)
    shift = np.zeros(d)
    shift[0] = 1.0
    allv = np.vstack([V, V + shift])
    # merge duplicate vertices
    uniq = []
    idx = []
    for p in allv:
        for j, q in enumerate(uniq):
            if np.allclose(p, q):
                idx.append(j)
                break
        else:
            uniq.append(p)
            idx.append(len(uniq) - 1)
    G = np.array(uniq) @ M.T + b
    n = len(V)
    return G, idx[:n], idx[n:]


def phys_map(cell, X, refpts):
    """Affine/multilinear map of reference points through the degree-1 coordinate element (core basix)."""
    el = basix.create_element(basix.ElementFamily.P, oracle.celltype(cell), 1)
    phi = el.tabulate(0, np.ascontiguousarray(refpts))[0][:, :, 0]  # [pts, nodes]
    return phi @ X


def local_facet(cell, verts, shared):
    d = TD[cell]
    topo = basix.topology(oracle.celltype(cell))[d - 1]
    for lf, fv in enumerate(topo):
        if {verts[k] for k in fv} == shared:
            return lf
    raise RuntimeError("numbering does not contain the shared facet")


_PROBE = {"point": np.zeros((1, 0)), "interval": np.array([[0.17], [0.61]]), "triangle": np.array([[0.13, 0.24], [0.52, 0.11], [0.2, 0.7]]),
          "quadrilateral": np.array([[0.13, 0.24], [0.62, 0.11], [0.3, 0.85]])}


def valid_code_pairs(cell, Xp, Xm, lfp, lfm):
    d = TD[cell]
    fcell = oracle.entity_cellname(cell, d - 1, lfp) if d > 1 else "point"
    if d == 1:
        return [(0, 0)], fcell
    nc = oracle.num_permutation_codes(fcell)
    pts = _PROBE[fcell]
    P = {}
    for side, X, lf in (("+", Xp, lfp), ("-", Xm, lfm)):
        for N in range(nc):
            P[(side, N)] = phys_map(cell, X, oracle.map_to_cell(cell, d - 1, lf, oracle.permute_points(fcell, pts, N)))
    out = [(a, b) for a in range(nc) for b in range(nc) if np.max(np.abs(P[("+", a)] - P[("-", b)])) < 1e-11]
    return out, fcell


# ---------------------------------------------------------------------------------------------------
# global polynomials (exactly representable by the degree-2 spaces) and their interpolation
# ---------------------------------------------------------------------------------------------------
class Poly:
    """p(x) = a0 + a.x + x^T B x, optionally vector valued (list of components)."""

    def __init__(self, rng, d, deg, tensor_rows=None):
        self.a0 = rng.uniform(0.5, 1.5)
        self.a = rng.uniform(-1, 1, size=d)
        B = rng.uniform(-0.5, 0.5, size=(d, d)) if deg >= 2 else np.zeros((d, d))
        if deg == 1 and tensor_rows is not None:
            # degree-1 elements of tensor cells (Q1) also hold the products xi_i xi_j (i < j) of the cell's affine coordinates xi = A^-1 (x - x0):
            # a field with such terms has a gradient that varies along the facet (both cells share the linear part A of their maps)
            for i in range(d):
                for j in range(i + 1, d):
                    B = B + rng.uniform(0.4, 0.9) * np.outer(tensor_rows[i], tensor_rows[j])
        self.B = 0.5 * (B + B.T)
        if deg == 0:
            self.a = np.zeros(d)

    def __call__(self, x):
        return self.a0 + x @ self.a + np.einsum("qi,ij,qj->q", x, self.B, x)

    def grad(self, x):
        return self.a[None, :] + 2.0 * x @ self.B

    def hess(self, x):
        return np.broadcast_to(2.0 * self.B, (len(x),) + self.B.shape)


def interpolate(element, cell, X, polys):
    """Point-evaluation interpolation of (a list of component) polynomials into a (blocked) Lagrange element."""
    sub = element._sub_element if type(element).__name__ == "_BlockedElement" else element
    pts = sub._element.points
    phys = phys_map(cell, X, pts)
    if type(element).__name__ == "_BlockedElement":
        bs = element.block_size
        out = np.zeros(len(pts) * bs)
        for c in range(bs):
            out[c::bs] = polys[c](phys)
        return out
    return polys[0](phys)


# ---------------------------------------------------------------------------------------------------
# independent physical-space evaluation of the (un-preprocessed) integrand
# ---------------------------------------------------------------------------------------------------
def physical_truth(integrand, cell, G, plus, minus, shared, fields):
    """Integrate a dS integrand over the shared facet with analytic polynomials.

    fields: {ufl FormArgument: {'+': polys, '-': polys}}  (polys = list of component Poly)
    """
    from ufl.classes import FacetNormal, Grad, Restricted

    d = TD[cell]
    sv = sorted(shared)
    F = G[sv]
    if d == 1:
        xq = F[:1]
        wq = np.ones(1)
    elif len(sv) == d:  # simplex facet
        fct = {2: basix.CellType.interval, 3: basix.CellType.triangle}[d]
        pts, wts = basix.make_quadrature(fct, 10)
        xq = F[0] + pts @ (F[1:] - F[0])
        if d == 2:
            meas = np.linalg.norm(F[1] - F[0])
        else:
            meas = np.linalg.norm(np.cross(F[1] - F[0], F[2] - F[0]))
        wq = wts * meas
    else:  # parallelogram faces of affine quads/hexes: order vertices so that F0 + s e1 + t e2
        fct = {2: basix.CellType.interval, 3: basix.CellType.quadrilateral}[d]
        pts, wts = basix.make_quadrature(fct, 10)
        if d == 2:
            xq = F[0] + pts @ (F[1:2] - F[0])
            meas = np.linalg.norm(F[1] - F[0])
        else:
            # find two edge vectors from F[0]: the two nearest vertices
            dist = np.linalg.norm(F - F[0], axis=1)
            o = np.argsort(dist)
            e1, e2 = F[o[1]] - F[0], F[o[2]] - F[0]
            xq = F[0] + pts[:, :1] * e1 + pts[:, 1:2] * e2
            meas = np.linalg.norm(np.cross(e1, e2))
        wq = wts * meas
    # outward normals
    cen = {"+": G[plus].mean(axis=0), "-": G[minus].mean(axis=0)}
    if d == 1:
        nrm0 = np.array([1.0])
    elif d == 2:
        t = F[1] - F[0]
        nrm0 = np.array([t[1], -t[0]]) / np.linalg.norm(t)
    else:
        if len(sv) == 3:
            nrm0 = np.cross(F[1] - F[0], F[2] - F[0])
        else:
            nrm0 = np.cross(e1, e2)
        nrm0 = nrm0 / np.linalg.norm(nrm0)
    normals = {}
    for s in ("+", "-"):
        normals[s] = nrm0 if np.dot(nrm0, F.mean(axis=0) - cen[s]) > 0 else -nrm0
    Q = len(wq)
    ones = np.ones((Q, 1, 1))

    def handler(e, side):
        k = 0
        t = e
        s = side
        while True:
            if isinstance(t, Grad):
                k += 1
                t = t.ufl_operands[0]
            elif isinstance(t, Restricted):
                s = t._side
                t = t.ufl_operands[0]
            else:
                break
        if not t._ufl_is_terminal_:
            return None
        if t in fields:
            polys = fields[t][s]
            vals = []
            for p in polys:
                if k == 0:
                    vals.append(p(xq))
                elif k == 1:
                    vals.append(np.moveaxis(p.grad(xq), -1, 0))
                elif k == 2:
                    vals.append(np.moveaxis(p.hess(xq), 0, -1))
                else:
                    vals.append(np.zeros((d,) * k + (Q,)))
            arr = np.array(vals[0]) if t.ufl_shape == () else np.stack(vals, axis=0)
            return arr[..., None, None] * ones
        if isinstance(t, FacetNormal):
            if k:
                return np.zeros((d,) * (k + 1) + (Q, 1, 1))
            return normals[s].reshape(-1, 1, 1, 1) * ones
        return None

    e = ufl.algorithms.apply_algebra_lowering.apply_algebra_lowering(integrand)
    e = ufl.algorithms.apply_derivatives.apply_derivatives(e)
    ctx = oracle.Ctx(cell, "interior_facet", {"+": np.zeros((Q, d)), "-": np.zeros((Q, d))}, wq, None, {}, {}, {})
    vals = oracle.evaluate(e, ctx, terminal_handler=handler)
    return float(np.real((vals[:, 0, 0] * wq).sum()))


# ---------------------------------------------------------------------------------------------------
# forms
# ---------------------------------------------------------------------------------------------------
def make_forms(cell, thorough):
    d = TD[cell]
    mesh = ufl.Mesh(basix.ufl.element("P", cell, 1, shape=(d,)))
    S2 = ufl.FunctionSpace(mesh, basix.ufl.element("DG", cell, 2))
    S1 = ufl.FunctionSpace(mesh, basix.ufl.element("DG", cell, 1))
    C2 = ufl.FunctionSpace(mesh, basix.ufl.element("P", cell, 2))
    VV = ufl.FunctionSpace(mesh, basix.ufl.element("DG", cell, 1, shape=(d,)))
    f, g = ufl.Coefficient(S2), ufl.Coefficient(S2)
    h = ufl.Coefficient(C2)
    n = ufl.FacetNormal(mesh)
    u2, v2 = ufl.TrialFunction(S2), ufl.TestFunction(S2)
    u1, v1 = ufl.TrialFunction(S1), ufl.TestFunction(S1)
    uv, vv = ufl.TrialFunction(VV), ufl.TestFunction(VV)
    fv = ufl.Coefficient(VV)
    dS = ufl.dS
    out = [
        ("M:jump(f)jump(g)", ufl.jump(f) * ufl.jump(g) * dS),
        ("M:f+g-", f("+") * g("-") * dS),
        ("M:avg(f)g-+jump(grad f).n+ g+", (ufl.avg(f) * g("-") + ufl.inner(ufl.jump(ufl.grad(f)), n("+")) * g("+")) * dS),
        ("M:two-rules", ufl.jump(f) * ufl.jump(g) * dS(degree=4) + f("+") * g("+") * dS(degree=6)),
        ("M:h(P2)jump(f)", h("+") * ufl.jump(f) * ufl.avg(g) * dS),
        ("L:jump(v)avg(f)", ufl.jump(v2) * ufl.avg(f) * dS),
        ("L:grad(v)-.n- f+", ufl.inner(ufl.grad(v2)("-"), n("-")) * f("+") * dS),
        ("a:jump(u)jump(v)", ufl.jump(u1) * ufl.jump(v1) * dS),
        ("a:avg(grad u).n+ jump(v) f-", ufl.inner(ufl.avg(ufl.grad(u2)), n("+")) * ufl.jump(v2) * f("-") * dS),
        ("a:u+v-", u2("+") * v2("-") * g("-") * dS),
        ("a:vec jump", ufl.inner(ufl.jump(uv), ufl.jump(vv)) * dS),
        ("M:vec f.n", ufl.inner(fv("+"), n("+")) * ufl.inner(fv("-"), n("-")) * dS),
    ]
    # named facet rules (exact for the degree-4 integrands): their points are stored in another order than the default rule's (GLL: end points first)
    if cell in ("triangle", "quadrilateral", "hexahedron"):
        out.append(("M:f+g- GLL", f("+") * g("-") * dS(metadata={"quadrature_rule": "GLL", "quadrature_degree": 4})))
        out.append(("a:u+v- GLL", u1("+") * v1("-") * dS(metadata={"quadrature_rule": "GLL", "quadrature_degree": 3})))
    if cell != "interval":
        out.append(("M:jump(f)g- GJ", ufl.jump(f) * g("-") * dS(metadata={"quadrature_rule": "Gauss-Jacobi", "quadrature_degree": 4})))
    # derivatives of order >= the element degree: constant on simplices, but still varying along the facet on quadrilaterals / hexahedra (Q1 gradients)
    f1, g1 = ufl.Coefficient(S1), ufl.Coefficient(S1)
    out.append(("M:grad(f1)+.grad(g1)-", ufl.inner(ufl.grad(f1)("+"), ufl.grad(g1)("-")) * dS))
    out.append(("a:grad(u1)+.grad(v1)- f1+", ufl.inner(ufl.grad(u1)("+"), ufl.grad(v1)("-")) * f1("+") * dS))
    if thorough:
        out += [
            ("a:jump(grad u)jump(grad v)", ufl.inner(ufl.jump(ufl.grad(u2)), ufl.jump(ufl.grad(v2))) * dS),
            ("L:vec avg(v).n f", ufl.inner(ufl.avg(vv), n("+")) * ufl.jump(f) * dS),
            ("M:hess", ufl.inner(ufl.grad(ufl.grad(f))("+"), ufl.grad(ufl.grad(g))("-")) * dS),
            ("a:u-v+ vertexrule", u1("-") * v1("+") * dS(metadata={"quadrature_rule": "vertex", "quadrature_degree": 1})) if cell != "interval" else ("a:u-v+", u1("-") * v1("+") * dS),
        ]
    return mesh, out


def one_sided_forms(cell):
    d = TD[cell]
    mesh = ufl.Mesh(basix.ufl.element("P", cell, 1, shape=(d,)))
    S2 = ufl.FunctionSpace(mesh, basix.ufl.element("DG", cell, 2))
    f, g = ufl.Coefficient(S2), ufl.Coefficient(S2)
    v = ufl.TestFunction(S2)
    n = ufl.FacetNormal(mesh)
    return mesh, [("M:f+g+", f("+") * g("+") * ufl.dS), ("L:v- f-", v("-") * f("-") * ufl.dS),
                  ("L:grad v+.n+", ufl.inner(ufl.grad(v)("+"), n("+")) * g("+") * ufl.dS)]


# ---------------------------------------------------------------------------------------------------
# worker: one (cell, form) -> all numbering pairs x all valid code pairs
# ---------------------------------------------------------------------------------------------------
def work(item):
    cell, fidx, thorough, seed = item
    mesh, flist = make_forms(cell, thorough)
    name, form = flist[fidx]
    d = TD[cell]
    rng = np.random.default_rng([seed, fidx, 11])
    G, plus, minus = two_cells(cell)
    shared = set(plus) & set(minus)
    syms = symmetries(cell)
    comp = engine.Compiled(form, "float64")
    res = dict(cell=cell, form=name, calls=0, numbering_pairs=0, maxdev=0.0, failures=[], code_pairs_seen=set())
    try:
        ks = comp.kernels_for("interior_facet", -1)
        kern = comp.kernels[ks[0]]
        res["needs_perm"] = bool(kern.needs_facet_permutations)
        fo = oracle.FormOracle(form)
        args = fo.arguments
        # polynomial stand-ins: per form argument / coefficient, per side, per component
        fields = {}
        rows = None
        if cell in ("quadrilateral", "hexahedron"):
            ax = {"quadrilateral": (1, 2), "hexahedron": (1, 2, 4)}[cell]
            rows = np.linalg.inv(np.array([G[plus[k]] - G[plus[0]] for k in ax]).T)
        for obj in list(fo.original_coefficients) + list(args):
            el = obj.ufl_function_space().ufl_element()
            deg = el.embedded_superdegree
            ncomp = el.block_size if type(el).__name__ == "_BlockedElement" else 1
            cont = not el.discontinuous
            pp = [Poly(rng, d, deg, rows) for _ in range(ncomp)]
            pm = pp if cont else [Poly(rng, d, deg, rows) for _ in range(ncomp)]
            fields[obj] = {"+": pp, "-": pm}
        # physical truth of the functional obtained by substituting the polynomials for all arguments
        integrand_sum = 0.0
        for itg in form.integrals():
            integrand_sum += physical_truth(itg.integrand(), cell, G, plus, minus, shared, fields)
        truth = integrand_sum
        exact_rule = "vertexrule" not in name
        scale = max(abs(truth), 1e-3)
        ref = None
        for sp in syms:
            vp = [plus[i] for i in sp]
            Xp = G[vp]
            lfp = local_facet(cell, vp, shared)
            wp = {o: interpolate(o.ufl_function_space().ufl_element(), cell, Xp, fields[o]["+"]) for o in fields}
            for sm in syms:
                vm = [minus[i] for i in sm]
                Xm = G[vm]
                lfm = local_facet(cell, vm, shared)
                pairs, fcell = valid_code_pairs(cell, Xp, Xm, lfp, lfm)
                res["numbering_pairs"] += 1
                if not pairs:
                    res["failures"].append(dict(kind="harness", text=f"no code pair aligns the facet points for numberings {sp},{sm}"))
                    return res
                wm = {o: interpolate(o.ufl_function_space().ufl_element(), cell, Xm, fields[o]["-"]) for o in fields}
                wv = np.concatenate([np.concatenate([wp[c], wm[c]]) for c in (fo.original_coefficients[p] for p in comp.positions)]) if comp.positions else np.zeros(0)
                X = engine.pack_geometry([Xp, Xm])
                shape = fo.tensor_shape("interior_facet")
                for codes in pairs:
                    call = engine.Call("float64", np.zeros(int(np.prod(shape)) if shape else 1), wv, np.zeros(0), X, (lfp, lfm), codes)
                    call.run(kern)
                    A = call.result().reshape(shape) if shape else call.result()[0]
                    # contract with the interpolants of the argument polynomials
                    val = A
                    for a in reversed(args):
                        vec = np.concatenate([wp[a], wm[a]])
                        val = val @ vec
                    val = float(val)
                    res["calls"] += 1
                    res["code_pairs_seen"].add((fcell, codes))
                    if ref is None:
                        ref = val
                    # the physical-space quadrature is a second oracle only where the form's rule integrates the polynomial integrand exactly
                    # (the vertex scheme does not); numbering independence itself (agreement with the identity numbering) is always demanded
                    dev = (max(abs(val - ref), abs(val - truth)) if exact_rule else abs(val - ref)) / scale
                    res["maxdev"] = max(res["maxdev"], dev)
                    if dev > 1e-9 or call.breaches():
                        res["failures"].append(dict(kind="numbering", numbering_plus=list(sp), numbering_minus=list(sm), facets=[lfp, lfm], codes=list(codes),
                                                    value=val, identity_value=ref, physical_truth=truth,
                                                    text=f"{cell} '{name}': numbering {sp}/{sm} facets ({lfp},{lfm}) codes {codes}: {val!r} vs identity numbering {ref!r} / physical quadrature {truth!r}"))
                        if len(res["failures"]) >= 3:
                            return res
        res["truth"] = truth
        res["value"] = ref
        return res
    finally:
        comp.cleanup()
        res["code_pairs_seen"] = sorted(res["code_pairs_seen"])


def work_one_sided(item):
    cell, fidx, seed = item
    mesh, flist = one_sided_forms(cell)
    name, form = flist[fidx]
    d = TD[cell]
    comp = engine.Compiled(form, "float64")
    res = dict(cell=cell, form=name, calls=0, failures=[], flag=None)
    try:
        rng = np.random.default_rng([seed, 5])
        kern = comp.kernels[comp.kernels_for("interior_facet", -1)[0]]
        res["flag"] = bool(kern.needs_facet_permutations)
        fo = oracle.FormOracle(form)
        shape = fo.tensor_shape("interior_facet")
        nf = oracle.num_entities(cell, d - 1)
        G, plus, minus = two_cells(cell)
        X = engine.pack_geometry([G[plus], G[minus]])
        nw = sum(fo.original_coefficients[p].ufl_element().dim * 2 for p in comp.positions)
        wv = rng.uniform(0.5, 1.5, size=nw)
        for f0, f1 in itertools.product(range(nf), repeat=2):
            fc0, fc1 = oracle.entity_cellname(cell, d - 1, f0) if d > 1 else "point", oracle.entity_cellname(cell, d - 1, f1) if d > 1 else "point"
            if fc0 != fc1:
                continue
            nc = oracle.num_permutation_codes(fc0)
            base = None
            for codes in itertools.product(range(nc), repeat=2):
                call = engine.Call("float64", np.zeros(int(np.prod(shape)) if shape else 1), wv, np.zeros(0), X, (f0, f1), codes)
                call.run(kern)
                A = call.result()
                res["calls"] += 1
                if base is None:
                    base = A
                elif not res["flag"] and np.max(np.abs(A - base)) > 1e-11 * max(1.0, np.max(np.abs(base))):
                    res["failures"].append(dict(kind="flag-false-but-depends", facets=[f0, f1], codes=list(codes),
                                                text=f"{cell} '{name}': needs_facet_permutations is false but the result for codes {codes} differs from codes (0,0) on facets ({f0},{f1})"))
                    return res
        return res
    finally:
        comp.cleanup()


def work_flag(item):
    """For the two-sided forms: flag false => all code pairs bit-identical (catches a flag computed false when needed)."""
    cell, fidx, thorough, seed = item
    mesh, flist = make_forms(cell, thorough)
    name, form = flist[fidx]
    d = TD[cell]
    comp = engine.Compiled(form, "float64")
    res = dict(cell=cell, form=name, calls=0, failures=[], flag=None)
    try:
        rng = np.random.default_rng([seed, 6])
        kern = comp.kernels[comp.kernels_for("interior_facet", -1)[0]]
        res["flag"] = bool(kern.needs_facet_permutations)
        if res["flag"]:
            return res
        fo = oracle.FormOracle(form)
        shape = fo.tensor_shape("interior_facet")
        G, plus, minus = two_cells(cell)
        X = engine.pack_geometry([G[plus], G[minus]])
        nw = sum(fo.original_coefficients[p].ufl_element().dim * 2 for p in comp.positions)
        wv = rng.uniform(0.5, 1.5, size=nw)
        nf = oracle.num_entities(cell, d - 1)
        for f0, f1 in itertools.product(range(nf), repeat=2):
            fc0 = oracle.entity_cellname(cell, d - 1, f0) if d > 1 else "point"
            fc1 = oracle.entity_cellname(cell, d - 1, f1) if d > 1 else "point"
            if fc0 != fc1:
                continue
            nc = oracle.num_permutation_codes(fc0)
            base = None
            for codes in itertools.product(range(nc), repeat=2):
                call = engine.Call("float64", np.zeros(int(np.prod(shape)) if shape else 1), wv, np.zeros(0), X, (f0, f1), codes)
                call.run(kern)
                A = call.result()
                res["calls"] += 1
                if base is None:
                    base = A
                elif np.max(np.abs(A - base)) > 1e-11 * max(1.0, np.max(np.abs(base))):
                    res["failures"].append(dict(kind="flag-false-but-depends", facets=[f0, f1], codes=list(codes),
                                                text=f"{cell} '{name}': needs_facet_permutations is false but the result depends on the codes ({codes} vs (0,0), facets ({f0},{f1}))"))
                    return res
        return res
    finally:
        comp.cleanup()


def _dispatch(item):
    kind = item[0]
    return {"num": work, "one": work_one_sided, "flag": work_flag}[kind](item[1:])


def main():
    chk = Check(PID)
    cells = ["interval", "triangle", "quadrilateral", "tetrahedron"] + (["hexahedron"] if True else [])
    items = []
    for cell in cells:
        _, fl = make_forms(cell, chk.thorough)
        nforms = len(fl)
        if cell == "hexahedron" and not chk.thorough:
            # 2304 numbering pairs x 8 code pairs each: a subset of the forms in the quick tier
            use = [i for i, (nm, _) in enumerate(fl) if nm in ("M:jump(f)jump(g)", "M:f+g-", "M:two-rules", "a:jump(u)jump(v)", "a:vec jump", "M:f+g- GLL", "M:grad(f1)+.grad(g1)-")]
        else:
            use = range(nforms)
        for i in use:
            items.append(("num", cell, i, chk.thorough, chk.seed))
            items.append(("flag", cell, i, chk.thorough, chk.seed))
        for i in range(3):
            items.append(("one", cell, i, chk.seed))
    items.sort(key=lambda it: (it[1] == "hexahedron", it[1] == "tetrahedron", it[0] == "num"), reverse=True)
    cov = dict(states=0, transitions=0, traces_validated_against_impl=0, forms=0, flag_false_kernels=0, flag_true_kernels=0,
               code_pairs_used={}, maxdev=0.0, exhaustive=True, per_cell={})
    samples = []
    for it, r in pmap(_dispatch, items, desc="C03"):
        kind, cell = it[0], it[1]
        cov["transitions"] += r["calls"]
        cov["traces_validated_against_impl"] += r["calls"]
        if kind == "num":
            cov["states"] += r["numbering_pairs"]
            cov["forms"] += 1
            cov["maxdev"] = max(cov["maxdev"], r["maxdev"])
            pc = cov["per_cell"].setdefault(cell, dict(numbering_pairs_per_form=r["numbering_pairs"], forms=0, calls=0))
            pc["forms"] += 1
            pc["calls"] += r["calls"]
            for fc, cd in r["code_pairs_seen"]:
                cov["code_pairs_used"].setdefault(fc, set()).add(tuple(cd))
            if len(samples) < 8:
                samples.append(dict(cell=cell, form=r["form"], numbering_pairs=r["numbering_pairs"], kernel_calls=r["calls"], value=r.get("value"),
                                    physical_truth=r.get("truth"), max_rel_dev=r["maxdev"], needs_facet_permutations=r.get("needs_perm")))
        else:
            if r["flag"] is False:
                cov["flag_false_kernels"] += 1
            elif r["flag"]:
                cov["flag_true_kernels"] += 1
        for f in r["failures"][:1]:
            if f["kind"] == "harness":
                print("HARNESS-ERROR:", f["text"])
                raise SystemExit(2)
            chk.violation(f"{PID}:{cell}:{r['form']}:{f['kind']}", f["text"], recipe=dict(kind=kind, item=list(it[1:])), observed=r["failures"][:3])
    cov["code_pairs_used"] = {k: len(v) for k, v in cov["code_pairs_used"].items()}
    cov["samples"] = samples
    cov["distinct_nontrivial"] = cov["forms"]
    cov["evaluations"] = cov["transitions"]
    cov["rule"] = ("states = (form, numbering pair) combinations: every pair of valid local numberings of two affine cells sharing a facet; transitions = kernel calls: "
                   "every pair of permutation codes that aligns the facet points physically (found geometrically by the harness); each must reproduce the identity-numbering value "
                   "and an independent physical-space quadrature to 1e-9; flag-false kernels: all code pairs on all facet pairs equal to 1e-11")
    chk.finish(cov, assumptions=[
        "affine cells; Lagrange/DG elements of degree <= 2 (no DOF transformations needed); integrands polynomial so the chosen rules are exact",
        "elements needing assembler-side DOF transformations (N1curl, RT, ...) are covered against R for every code pair in C02, not here",
    ])


def replay(path):
    doc = json.load(open(path))
    rec = doc["recipe"]
    r = _dispatch(tuple([rec["kind"]] + rec["item"]))
    for f in r["failures"]:
        print(f["text"])
    print({k: v for k, v in r.items() if k not in ("failures", "code_pairs_seen")})
    return 1 if r["failures"] else 0
