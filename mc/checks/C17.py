"""C17 - AST simplifications and optimiser passes preserve the computed values (DESIGN §4 C17).

(1) every overloaded operator (+, -, *, /, unary -, and the reflected forms with Python numbers) x ALL pairs of operand
    kinds {+-0.0, +-1.0, +-2.5, near-zero and near-one floats; 0, +-1, +-3 ints; Symbol; Neg(Symbol); Add; Mul; ArrayAccess;
    int-typed Symbol} evaluated on a grid of symbol values: the tree built through the overloads must have exactly the value
    of the unsimplified node (C semantics: int/int truncates); float_product on all subsets of the kinds;
    MultiIndex.global_index for all shapes with <= 3 dimensions of size <= 3 (and a size-1 / size-4 axis) and all index values
    vs row-major flattening.  The depth-1 cases are repeated in fresh interpreters under priming histories (ints wrapped first,
    floats wrapped first, after a complete kernel generation); ALL depth-2 compositions (a op1 b) op2 c / c op2 (a op1 b)
    over the same kinds are built through the overloads at both levels and compared with the tree of plain nodes wherever
    the plain value is finite (a fold that changes the C type of a sub-expression surfaces one level up as an integer division).
(2) optimiser: every kernel of the corpus generated with the passes (fuse_sections, fuse_loops, licm) enabled vs each
    individually and all jointly disabled; the COMPILED kernels must agree on identical inputs for every local entity /
    code pair (quick-mode enumeration of C02), to rounding.
"""

from __future__ import annotations

import itertools
import json
import math
import re

import numpy as np

from .. import audit, engine, forms
from ..runner import Check, pmap

PID = "C17"


# ---------------------------------------------------------------------------------------------------
def evaluate(n, L, env):
    """Value of an L expression under C semantics (ints stay ints, int/int truncates toward zero)."""
    if isinstance(n, L.LiteralFloat):
        return n.value
    if isinstance(n, L.LiteralInt):
        return int(n.value)
    if isinstance(n, L.Symbol):
        return env[n.name]
    if isinstance(n, L.ArrayAccess):
        idx = tuple(int(evaluate(i, L, env)) for i in n.indices)
        return env[n.array.name][idx]
    if isinstance(n, L.Neg):
        return -evaluate(n.arg, L, env)
    if isinstance(n, L.NaryOp):
        vals = [evaluate(a, L, env) for a in n.args]
        out = vals[0]
        for v in vals[1:]:
            out = out + v if isinstance(n, L.Sum) else out * v
        return out
    if isinstance(n, L.BinOp):
        a, b = evaluate(n.lhs, L, env), evaluate(n.rhs, L, env)
        if n.op == "+":
            return a + b
        if n.op == "-":
            return a - b
        if n.op == "*":
            return a * b
        if n.op == "/":
            if isinstance(a, int) and isinstance(b, int):
                q = abs(a) // abs(b)
                return q if (a >= 0) == (b >= 0) else -q
            return a / b
    if isinstance(n, L.MultiIndex):
        return evaluate(n.global_index, L, env)
    raise NotImplementedError(type(n).__name__)


def operand_kinds(L):
    x, y = L.Symbol("x", L.DataType.SCALAR), L.Symbol("y", L.DataType.SCALAR)
    i = L.Symbol("i", L.DataType.INT)
    a = L.Symbol("a", L.DataType.SCALAR)
    kinds = []
    for v in (0.0, -0.0, 1.0, -1.0, 2.5, -2.5, 1e-9, -1e-9, 1.0 + 1e-6, 1.0 - 1e-6, -1.0 + 1e-6, 1e-300, 0.999999999, 5e-324):
        kinds.append((f"LiteralFloat({v!r})", L.LiteralFloat(v), v))
    for v in (0, 1, -1, 3, -3, 2):
        kinds.append((f"LiteralInt({v})", L.LiteralInt(v), v))
    kinds += [("Symbol x", x, None), ("Neg(x)", L.Neg(x), None), ("Add(x,y)", L.Add(x, y), None), ("Mul(x,y)", L.Mul(x, y), None), ("Sub(x,y)", L.Sub(x, y), None),
              ("a[i]", L.ArrayAccess(a, (i,)), None), ("int Symbol i", i, None), ("Neg(i)", L.Neg(i), None), ("Div(x,y)", L.Div(x, y), None)]
    return kinds


ENVS = [dict(x=1.75, y=-0.6, i=2, a=np.array([0.5, -1.5, 3.25])), dict(x=-3.0, y=2.0, i=1, a=np.array([7.0, 0.125, -2.0])),
        dict(x=0.3, y=1e8, i=0, a=np.array([-0.75, 4.0, 1.0]))]


def same(u, v):
    if isinstance(u, float) and isinstance(v, float) and math.isnan(u) and math.isnan(v):
        return True
    return u == v and type(u) in (int, float, np.float64, bool) and type(v) in (int, float, np.float64, bool) and (isinstance(u, int) == isinstance(v, int) or u == v)


def check_operators():
    import ffcx.codegeneration.lnodes as L

    kinds = operand_kinds(L)
    fails = []
    n = 0
    ops = [("+", lambda a, b: a + b, L.Add), ("-", lambda a, b: a - b, L.Sub), ("*", lambda a, b: a * b, L.Mul), ("/", lambda a, b: a / b, L.Div)]
    for (da, na, va), (db, nb, vb) in itertools.product(kinds, repeat=2):
        for sym, f, cls in ops:
            variants = [("node op node", lambda: f(na, nb))]
            if va is not None:
                variants.append(("python-number op node", lambda: f(va, nb)))  # reflected operator
            if vb is not None:
                variants.append(("node op python-number", lambda: f(na, vb)))
            for vd, build in variants:
                n += 1
                ref_node = cls(na, nb)
                try:
                    tree = build()
                except ValueError as e:
                    # "Division by zero!" is raised for literal zero divisors: the unsimplified value is undefined there too
                    if sym == "/" and vb is not None and vb == 0:
                        continue
                    fails.append((f"{da} {sym} {db} [{vd}]", f"raises {e}"))
                    continue
                for env in ENVS:
                    try:
                        want = evaluate(ref_node, L, env)
                    except ZeroDivisionError:
                        continue
                    try:
                        got = evaluate(tree, L, env)
                    except ZeroDivisionError:
                        fails.append((f"{da} {sym} {db} [{vd}]", "simplified tree divides by zero where the plain operation does not"))
                        break
                    if not (want == got or (isinstance(want, float) and isinstance(got, float) and math.isnan(want) and math.isnan(got))):
                        fails.append((f"{da} {sym} {db} [{vd}]", f"value {got!r} but the unsimplified operation gives {want!r} (x={env['x']}, y={env['y']}, i={env['i']})"))
                        break
    # unary minus
    for d, node, v in kinds:
        n += 1
        tree = -node
        for env in ENVS:
            want, got = -evaluate(node, L, env), evaluate(tree, L, env)
            if want != got:
                fails.append((f"-({d})", f"value {got!r} != {want!r}"))
                break
    return n, fails


def _finite(v):
    return isinstance(v, int) or (isinstance(v, (float, np.floating)) and math.isfinite(v))


def check_compositions(part=None):
    """Depth 2: (a op1 b) op2 c and c op2 (a op1 b), both levels built through the overloads, against the tree of plain nodes.
    A fold that keeps the value but changes the C type of a sub-expression (1.0 * i -> i) shows up one level higher (int division).
    Judged where the plain operation's value is finite (folds of zeros assume finite operands)."""
    import ffcx.codegeneration.lnodes as L

    kinds = operand_kinds(L)
    ops = [("+", lambda a, b: a + b, L.Add), ("-", lambda a, b: a - b, L.Sub), ("*", lambda a, b: a * b, L.Mul), ("/", lambda a, b: a / b, L.Div)]
    fails = []
    n = 0
    outer = kinds if part is None else kinds[part[0]::part[1]]
    with np.errstate(all="ignore"):
        for (da, na, va) in outer:
            for (db, nb, vb), (dc, nc, vc) in itertools.product(kinds, repeat=2):
                for s1, f1, c1 in ops:
                    try:
                        inner = f1(na, nb)
                    except ValueError:
                        continue
                    ref_in = c1(na, nb)
                    for s2, f2, c2 in ops:
                        for side in (0, 1):
                            n += 1
                            try:
                                tree = f2(inner, nc) if side == 0 else f2(nc, inner)
                            except ValueError:
                                continue
                            ref = c2(ref_in, nc) if side == 0 else c2(nc, ref_in)
                            for env in ENVS:
                                try:
                                    want = evaluate(ref, L, env)
                                    if not (_finite(want) and _finite(evaluate(ref_in, L, env))):
                                        continue
                                except ZeroDivisionError:
                                    continue
                                try:
                                    got = evaluate(tree, L, env)
                                except ZeroDivisionError:
                                    got = "division by zero"
                                if want != got:
                                    d = f"comp: ({da} {s1} {db}) {s2} {dc}" if side == 0 else f"comp: {dc} {s2} ({da} {s1} {db})"
                                    fails.append((d, f"value {got!r} but the unsimplified operations give {want!r} (x={env['x']}, y={env['y']}, i={env['i']})"))
                                    break
    return n, fails


def _comp_part(part):
    return check_compositions(part)


def prime(order):
    """Histories for the fold checks: what the process wrapped through as_lexpr before (ints first / floats first / a whole kernel generation)."""
    import ffcx.codegeneration.lnodes as L

    if order == "ints-first":
        for v in list(range(-3, 9)) + [0.0, 1.0, -1.0, 2.0, 3.0, 6.0]:
            L.as_lexpr(v)
    elif order == "floats-first":
        for v in [0.0, -0.0, 1.0, -1.0, 2.0, 3.0, 6.0] + list(range(-3, 9)):
            L.as_lexpr(v)
    elif order == "after-kernel":
        import basix.ufl
        import ufl

        import ffcx.compiler
        import ffcx.options

        m = ufl.Mesh(basix.ufl.element("P", "triangle", 1, shape=(2,)))
        V = ufl.FunctionSpace(m, basix.ufl.element("P", "triangle", 2))
        ffcx.compiler.compile_ufl_objects([ufl.Coefficient(V) * ufl.TrialFunction(V) * ufl.TestFunction(V) * ufl.dx + ufl.TrialFunction(V)('+') * ufl.TestFunction(V)('-') * ufl.dS],
                                          options=ffcx.options.get_options({}), namespace="prime")


def fold_child(order):
    """Executed in a fresh interpreter: prime, then all depth-1 fold checks."""
    prime(order)
    out = []
    for fn in (check_operators, check_float_product, check_multiindex):
        n, f = fn()
        out.append((n, f))
    return out


def run_fold_history(order):
    import os
    import subprocess
    import sys

    verif = os.path.dirname(os.path.dirname(os.path.dirname(os.path.abspath(__file__))))
    env = dict(os.environ)
    env["PYTHONPATH"] = verif + (os.pathsep + env["PYTHONPATH"] if env.get("PYTHONPATH") else "")
    code = f"import json; from mc.checks import C17; print('FOLD-RESULT ' + json.dumps(C17.fold_child({order!r})))"
    r = subprocess.run([sys.executable, "-W", "ignore", "-c", code], capture_output=True, text=True, env=env, timeout=1800)
    line = [l for l in r.stdout.splitlines() if l.startswith("FOLD-RESULT ")]
    if not line:
        return dict(order=order, error=(r.stderr or r.stdout)[-600:])
    return dict(order=order, result=json.loads(line[-1][len("FOLD-RESULT "):]))


def check_float_product():
    import ffcx.codegeneration.lnodes as L

    kinds = [k for k in operand_kinds(L) if "Int" not in k[0] and "i" not in k[0].split()[-1:]][:18]
    fails = []
    n = 0
    for r in range(0, 4):
        for combo in itertools.combinations(kinds, r):
            n += 1
            tree = L.float_product([c[1] for c in combo])
            for env in ENVS:
                want = 1.0
                for c in combo:
                    want = want * evaluate(c[1], L, env)
                got = evaluate(tree, L, env)
                if not (got == want or (math.isnan(got) and math.isnan(want))):
                    fails.append((f"float_product({[c[0] for c in combo]})", f"value {got!r} != {want!r}"))
                    break
    return n, fails


def check_multiindex():
    import ffcx.codegeneration.lnodes as L

    fails = []
    n = 0
    sizes_pool = (1, 2, 3, 4)
    for dim in (0, 1, 2, 3):
        for sizes in itertools.product(sizes_pool, repeat=dim):
            syms = [L.Symbol(f"i{k}", L.DataType.INT) for k in range(dim)]
            mi = L.MultiIndex(syms, list(sizes))
            for idx in itertools.product(*[range(s) for s in sizes]):
                n += 1
                env = {f"i{k}": v for k, v in enumerate(idx)}
                got = evaluate(mi, L, env)
                want = int(np.ravel_multi_index(idx, sizes)) if dim else 0
                if got != want:
                    fails.append((f"MultiIndex(sizes={sizes})", f"global_index{idx} = {got}, row-major flattening gives {want}"))
                    break
            # mixed literal / symbol indices as the generators produce them (offset + stride * i)
            if dim >= 1:
                mi2 = L.MultiIndex([L.LiteralInt(0)] + syms[1:], list(sizes))
                for idx in itertools.product(*[range(s) for s in sizes[1:]]):
                    n += 1
                    env = {f"i{k + 1}": v for k, v in enumerate(idx)}
                    got = evaluate(mi2, L, env)
                    want = int(np.ravel_multi_index((0,) + idx, sizes))
                    if got != want:
                        fails.append((f"MultiIndex(literal 0, sizes={sizes})", f"{got} != {want}"))
                        break
    return n, fails


# ---------------------------------------------------------------------------------------------------
VARIANTS = [("fuse_sections",), ("fuse_loops",), ("licm",), ("fuse_sections", "fuse_loops", "licm")]


def work(item):
    k0, cfg, seed, thorough = item
    res = dict(key=k0, status="ok", calls=0, variants=0, maxdev=0.0, failures=[], differs_in_text=0)
    geom = cfg.get("geom", "affine")
    try:
        B = forms.build(cfg)
    except Exception:
        res["status"] = "inapplicable"
        return res
    import ffcx.codegeneration.optimizer as opt

    def outputs(off):
        saved = {n: getattr(opt, n) for n in ("fuse_sections", "fuse_loops", "licm")}
        try:
            if "fuse_sections" in off:
                opt.fuse_sections = lambda code, name: code
            if "fuse_loops" in off:
                opt.fuse_loops = lambda section: section
            if "licm" in off:
                opt.licm = lambda section, rule: section
            # the module name does not depend on the passes: use a fresh cache directory per variant (collect_outputs does)
            return engine.collect_outputs(B.form, B.mesh, B.cell, geom, "float64", None, seed, entity_mode="quick", max_calls=30)
        finally:
            for n, f in saved.items():
                setattr(opt, n, f)

    st0, base, info0 = outputs(())
    if st0 != "ok":
        res["status"] = "rejected"
        res["why"] = str(info0)[:100]
        return res
    res["calls"] += len(base)
    variants = VARIANTS if thorough else [VARIANTS[3], VARIANTS[2]]
    for off in variants:
        st, out, info = outputs(off)
        res["variants"] += 1
        if st != "ok":
            res["failures"].append(dict(kind="pass-off-raises:" + "+".join(off), text=f"with {off} disabled code generation fails: {info}"))
            continue
        res["calls"] += len(out)
        for kk, (A, shape, br, nk) in base.items():
            A2 = out[kk][0]
            sc = max(float(np.max(np.abs(A2))), 1e-30)
            dev = float(np.max(np.abs(A - A2))) / sc
            if not np.all(np.isfinite(A)):
                dev = np.inf
            res["maxdev"] = max(res["maxdev"], dev)
            if dev > 1e-11:
                res["failures"].append(dict(kind="optimiser-changes-value:" + "+".join(off), call=str(kk),
                                            text=f"kernel {kk[:2]} entities={kk[3]} codes={kk[4]}: with the optimiser passes enabled the result differs by {dev:.2e} from the "
                                            f"kernel generated with {'+'.join(off)} disabled"))
                break
        if res["failures"]:
            break
    if res["failures"]:
        res["status"] = "violation"
    return res


def main():
    chk = Check(PID)
    cov = dict(states=0, transitions=0, traces_validated_against_impl=0, exhaustive=True)
    # depth-1 folds under every priming history, each in a fresh interpreter (a literal cache or any other state behind as_lexpr is history)
    ORDERS = ["fresh", "ints-first", "floats-first", "after-kernel"]
    n1 = n2 = n3 = 0
    allf = []
    for it, r in pmap(run_fold_history, ORDERS, desc="C17 folds"):
        if "error" in r:
            print("HARNESS-ERROR: fold history", it, r["error"][-400:])
            raise SystemExit(2)
        (a, fa), (b, fb), (c, fc) = r["result"]
        n1, n2, n3 = n1 + a, n2 + b, n3 + c
        allf += [(d, f"[history {it}] {why}") for d, why in fa + fb + fc]
    # depth-2 compositions, split over the pool by the first operand
    nparts = 16
    n4 = 0
    for it, (n, f) in pmap(_comp_part, [(k, nparts) for k in range(nparts)], desc="C17 compositions"):
        n4 += n
        allf += f
    cov["operator_cases"], cov["float_product_cases"], cov["multiindex_cases"], cov["composition_cases"], cov["fold_histories"] = n1, n2, n3, n4, ORDERS
    cov["states"] += n1 + n2 + n3 + n4
    grouped = {}
    for d, why in allf:
        g = d.split(" [")[0]
        if d.startswith("comp: "):
            # one replay file per operator pair / operand-kind pattern (literal values abstracted)
            g = re.sub(r"\((-?[0-9][0-9.e+-]*|-?inf|nan)\)", "(#)", d)
        grouped.setdefault(g, []).append((d, why))
    for g, inst in sorted(grouped.items()):
        chk.violation(f"{PID}:fold:{g}", f"{inst[0][0]}: {inst[0][1]}", recipe=dict(kind="fold", case=g), observed=[dict(case=a, why=b) for a, b in inst[:10]])
    nodes, edges = audit.corpus(chk.thorough)
    cfgs = list(nodes.items())
    if not chk.thorough:
        cfgs = [kv for kv in cfgs if kv[1]["cell"] in ("triangle", "tetrahedron", "quadrilateral", "hexahedron")][::2]
    items = [(k, cfg, chk.seed, chk.thorough) for k, cfg in cfgs]
    items.sort(key=lambda it: it[1]["cell"] in ("tetrahedron", "hexahedron", "prism"), reverse=True)
    tot = dict(configs=len(items), ok=0, inapplicable=0, rejected=0, violating=0, kernel_calls=0, variants=0)
    samples = []
    for it, r in pmap(work, items, desc="C17"):
        tot["kernel_calls"] += r["calls"]
        tot["variants"] += r["variants"]
        if r["status"] == "violation":
            tot["violating"] += 1
            f = r["failures"][0]
            chk.violation(f"{PID}:{r['key']}:{f['kind']}", f["text"], recipe=dict(kind="optimiser", config=it[1], seed=chk.seed, thorough=chk.thorough), observed=r["failures"][:3])
        else:
            tot[r["status"]] += 1
            if r["status"] == "ok" and len(samples) < 5 and r["calls"] > 6:
                samples.append(dict(config=r["key"], kernel_calls=r["calls"], variants=r["variants"], max_rel_dev=r["maxdev"]))
    cov["states"] += tot["variants"] + tot["ok"]
    cov["transitions"] = tot["kernel_calls"]
    cov["traces_validated_against_impl"] = tot["ok"] + tot["violating"]
    cov["evaluations"] = cov["states"]
    cov["distinct_nontrivial"] = tot["ok"]
    cov["totals"] = tot
    cov["samples"] = samples or [dict(note="none")]
    cov["rule"] = ("depth-2 compositions over all ordered triples of operand kinds x operator pairs x both sides; depth-1 cases under 4 priming histories in fresh interpreters; operator cases = operator x ordered pairs of operand kinds x {node/node, reflected with Python numbers} on 3 symbol environments; float_product on all subsets (size <= 3) of 18 kinds; "
                   "MultiIndex for all shapes of <= 3 axes with sizes 1..4 x all index values; optimiser: per configuration the compiled kernels with passes on vs off (quick: all off, licm off; "
                   "thorough: each pass and all) on every entity/code pair of C02's quick mode")
    chk.finish(cov, assumptions=["values compared exactly for the folding rules (C semantics, sign of zero ignored) and to 1e-11 for optimiser variants (compiled kernels, reordered floating-point sums)",
                                 "the compiled kernels with the passes disabled are the oracle for the optimised ones (both are checked against R elsewhere)"])


def replay(path):
    doc = json.load(open(path))
    rec = doc["recipe"]
    if rec["kind"] == "fold":
        hits = 0
        allf = []
        for o in ("fresh", "ints-first", "floats-first", "after-kernel"):
            r = run_fold_history(o)
            for n, f in r.get("result", []):
                allf += [(d, f"[history {o}] {why}") for d, why in f]
        allf += check_compositions()[1]
        want = {c["case"] for c in doc.get("observed", []) if isinstance(c, dict) and "case" in c}
        for d, why in allf:
            if d in want or d.startswith(rec["case"]):
                print(d, why)
                hits += 1
        return 1 if hits else 0
    r = work(("replay", rec["config"], rec.get("seed", 0), rec.get("thorough", False)))
    print(r["status"])
    for f in r["failures"]:
        print("  ", f["text"])
    return 1 if r["status"] == "violation" else 0
