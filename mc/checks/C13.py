"""C13 - JIT signatures are stable across processes and separate different inputs (DESIGN §4 C13).

(a) stability: all histories of depth <= 1 (quick) / <= 2 (thorough) over the alphabet of mc.hist x hash seeds, each in a
    fresh process: module names and object names of all targets must equal those of the empty-history seed-0 process.
(b) separation: a catalogue of JIT requests spanning integrand variants, point arrays (equal; differing in the 9th digit;
    > 1000 entries differing in the middle; other shape / dtype / memory layout), scalar types, every option, compiler flags,
    debug flag - ALL PAIRS: if the generated source (hashes normalised) or the build inputs differ, the module names must differ;
    equal requests must get equal names.
(c) within one module all object names are distinct valid C identifiers: multi-object requests (same form twice, same
    expression twice, forms with equal signatures, mixes) are built with the real compiler.
"""

from __future__ import annotations

import hashlib
import itertools
import json
import re

import numpy as np

from .. import hist
from ..runner import Check, pmap

PID = "C13"


def catalogue():
    """(label, kind, builder() -> ufl objects list, options, compile args, debug)."""
    import basix.ufl
    import ufl

    el = basix.ufl.element
    out = []

    def mesh(cell="triangle"):
        d = {"triangle": 2, "tetrahedron": 3, "quadrilateral": 2, "interval": 1}[cell]
        return ufl.Mesh(el("P", cell, 1, shape=(d,)))

    def form(variant):
        def f():
            m = mesh("triangle" if variant != "tet" else "tetrahedron")
            cell = "triangle" if variant != "tet" else "tetrahedron"
            V = ufl.FunctionSpace(m, el("P", cell, 2 if variant == "p2" else 1))
            u, v = ufl.TrialFunction(V), ufl.TestFunction(V)
            c = ufl.Coefficient(V)
            k = ufl.Constant(m)
            uv = ufl.inner(u, v)
            return [{"mass": uv * ufl.dx, "stiff": ufl.inner(ufl.grad(u), ufl.grad(v)) * ufl.dx, "coef": c * uv * ufl.dx, "const": k * uv * ufl.dx,
                     "coef2": c * c * uv * ufl.dx, "ds": uv * ufl.ds, "dx1": uv * ufl.dx(1), "deg": uv * ufl.dx(degree=3), "deg4": uv * ufl.dx(degree=4),
                     "lin": ufl.inner(c, v) * ufl.dx, "p2": uv * ufl.dx, "tet": uv * ufl.dx, "scaled": 2.0 * uv * ufl.dx, "scaled3": 3.0 * uv * ufl.dx,
                     "sum": uv * ufl.dx + uv * ufl.ds}[variant]]
        return f
    for v in ("mass", "stiff", "coef", "const", "coef2", "ds", "dx1", "deg", "deg4", "lin", "p2", "tet", "scaled", "scaled3", "sum"):
        out.append((f"form:{v}", "form", form(v), {}, [], False))
    out.append(("form:mass(again)", "form", form("mass"), {}, [], False))
    for st in ("float32", "complex128", "complex64"):
        out.append((f"form:mass:{st}", "form", form("mass"), {"scalar_type": st}, [], False))
    for oname, oval in (("table_rtol", 1e-3), ("table_atol", 1e-6), ("epsilon", 1e-10), ("part", "diagonal"), ("sum_factorization", True), ("verbosity", 10)):
        out.append((f"form:stiff:{oname}={oval}", "form", form("stiff"), {oname: oval}, [], False))
    out.append(("form:mass:args=-O0", "form", form("mass"), {}, ["-O0"], False))
    out.append(("form:mass:args=-O3", "form", form("mass"), {}, ["-O3"], False))
    # flag lists that are permutations / repetitions of each other: the order is significant to the compiler (-D/-U, -O*, -f/-fno-: the last one wins)
    out.append(("form:mass:args=-O0,-O3", "form", form("mass"), {}, ["-O0", "-O3"], False))
    out.append(("form:mass:args=-O3,-O0", "form", form("mass"), {}, ["-O3", "-O0"], False))
    out.append(("form:mass:args=-UX,-DX=1", "form", form("mass"), {}, ["-UFFCX_VERIF_X", "-DFFCX_VERIF_X=1"], False))
    out.append(("form:mass:args=-DX=1,-UX", "form", form("mass"), {}, ["-DFFCX_VERIF_X=1", "-UFFCX_VERIF_X"], False))
    out.append(("form:mass:debug", "form", form("mass"), {}, [], True))
    out.append(("forms:[mass,stiff]", "form", lambda: form("mass")() + form("stiff")(), {}, [], False))
    out.append(("forms:[stiff,mass]", "form", lambda: form("stiff")() + form("mass")(), {}, [], False))

    def expr(variant, pts):
        def f():
            m = mesh()
            V = ufl.FunctionSpace(m, el("P", "triangle", 2))
            c = ufl.Coefficient(V)
            e = {"c": c, "gradc": ufl.grad(c), "c2": c * c, "x": ufl.SpatialCoordinate(m)[0] * c}[variant]
            return [(e, pts)]
        return f
    base = np.array([[0.25, 0.25], [0.5, 0.125]])
    big = np.linspace(0.01, 0.49, 2400).reshape(1200, 2)
    big2 = big.copy()
    big2[600, 1] += 0.013
    points = {
        "base": base, "equal-copy": base.copy(), "9th-digit": base + np.array([[1e-9, 0.0], [0.0, 0.0]]), "12th-digit": base + np.array([[0.0, 0.0], [0.0, 3e-12]]),
        "other": base + 0.1, "transposed-order": base[::-1].copy(), "three": np.vstack([base, [[0.1, 0.2]]]), "fortran-layout": np.asfortranarray(base),
        # the C-ordered point set whose MEMORY holds the same value sequence as the Fortran-ordered array above (logically other points)
        "fortran-memory-twin": np.ascontiguousarray(np.asfortranarray(base).ravel(order="K").reshape(base.shape)),
        "strided-view": np.array([[0.25, 9.0, 0.25, 9.0], [0.5, 9.0, 0.125, 9.0]])[:, ::2],
        "big": big, "big-middle-differs": big2, "float32": base.astype(np.float32),
    }
    for pn, p in points.items():
        out.append((f"expr:c:{pn}", "expr", expr("c", p), {}, [], False))
    for v in ("gradc", "c2", "x"):
        out.append((f"expr:{v}:base", "expr", expr(v, base), {}, [], False))
    out.append(("expr:c:base:float32", "expr", expr("c", base), {"scalar_type": "float32"}, [], False))
    out.append(("expr:c:base:args=-O0", "expr", expr("c", base), {}, ["-O0"], False))
    return out


def observe(entry):
    """Module name + normalised generated source + build inputs for one catalogue entry (in this process)."""
    import ffcx.codegeneration.jit as jit
    import ffcx.compiler
    import ffcx.naming
    import ffcx.options

    label, kind, build, options, args, debug = entry
    objs = build()
    p = ffcx.options.get_options(dict(options))
    try:
        cap = hist.real_names(objs, options, args, debug)
        name, onames = cap["module"], cap["objects"]
    except Exception as e:  # noqa: BLE001
        return dict(label=label, module=f"signature-raises:{type(e).__name__}:{label}", source="-", build=(tuple(args), debug), objects=[])
    try:
        code, _ = ffcx.compiler.compile_ufl_objects(objs, options=p, namespace="NS")
        text = "\n".join(code)
        norm = re.sub(r"[0-9a-f]{40}", "H", text)
        src = hashlib.sha1(norm.encode()).hexdigest()
    except Exception as e:  # noqa: BLE001
        src = f"generation-raises:{type(e).__name__}"
    return dict(label=label, module=name, source=src, build=(tuple(args), debug), objects=onames)


def separation():
    cat = catalogue()
    obs = [observe(e) for e in cat]
    fails = []
    npairs = 0
    for a, b in itertools.combinations(obs, 2):
        npairs += 1
        differ = a["source"] != b["source"] or a["build"] != b["build"]
        same_name = a["module"] == b["module"]
        if differ and same_name:
            what = "generated source" if a["source"] != b["source"] else "compiler flags"
            fails.append((a["label"], b["label"], f"requests {a['label']!r} and {b['label']!r} differ in {what} but share the module name {a['module'][-12:]}"))
        if not differ and not same_name and a["label"].split("(")[0] == b["label"].split("(")[0]:
            fails.append((a["label"], b["label"], f"identical requests {a['label']!r} / {b['label']!r} get different module names"))
    # equal requests: equal names
    by = {o["label"]: o for o in obs}
    for x, y in (("form:mass", "form:mass(again)"), ("expr:c:base", "expr:c:equal-copy"), ("expr:c:base", "expr:c:fortran-layout")):
        if by[x]["module"] != by[y]["module"] and by[x]["source"] == by[y]["source"]:
            fails.append((x, y, f"equal requests {x!r} and {y!r} get different module names"))
    ident = re.compile(r"^[A-Za-z_][A-Za-z0-9_]*$")
    for o in obs:
        for n in [o["module"]] + o["objects"]:
            if not ident.match(n):
                fails.append((o["label"], "", f"name {n!r} is not a valid C identifier"))
        if len(set(o["objects"])) != len(o["objects"]):
            fails.append((o["label"], "", f"object names within one module are not distinct: {o['objects']}"))
    return len(obs), npairs, fails, obs


def pair_histories():
    """(d) every ordered pair (a, b) of same-sized expression requests as a two-step history in THIS process: request a is named and
    released (its objects garbage collected), then b is built and named; b's names must equal those of b named with everything alive."""
    import gc

    import basix.ufl
    import ufl

    el = basix.ufl.element
    pts = np.array([[0.25, 0.25], [0.5, 0.125]])

    def mk(fn):
        def build():
            m = ufl.Mesh(el("P", "triangle", 1, shape=(2,)))
            c = ufl.Coefficient(ufl.FunctionSpace(m, el("P", "triangle", 2)))
            return [(fn(c), pts)]
        return build
    variants = {"sin": mk(ufl.sin), "cos": mk(ufl.cos), "exp": mk(ufl.exp), "tan": mk(ufl.tan), "sq": mk(lambda c: c * c), "neg": mk(lambda c: -c), "grad": mk(ufl.grad), "abs": mk(abs)}
    alive = {k: b() for k, b in variants.items()}
    fresh = {k: hist.real_names(o, {})["module"] for k, o in alive.items()}
    fails = []
    n = 0
    if len(set(fresh.values())) != len(fresh):
        fails.append(("alive", "alive", f"different expressions share a module name: {fresh}"))
    for a, b in itertools.permutations(variants, 2):
        n += 1
        oa = variants[a]()
        hist.real_names(oa, {})
        del oa
        gc.collect()
        ob = variants[b]()
        nb = hist.real_names(ob, {})["module"]
        del ob
        gc.collect()
        if nb != fresh[b]:
            fails.append((a, b, f"after naming and releasing the request '{a}', the request '{b}' is named {nb[-10:]} instead of {fresh[b][-10:]}"
                          + (f" (the name of '{a}')" if nb == fresh[a] else "")))
    return n, fails


def config_jobs():
    """(e) options arriving through ffcx_options.json files must separate names exactly like options passed through the API."""
    return [("none", dict()), ("pwd:float32", dict(config={"scalar_type": "float32"})), ("user:float32", dict(user_config={"scalar_type": "float32"})),
            ("api:float32", dict(options={"scalar_type": "float32"})), ("pwd:rtol", dict(config={"table_rtol": 1e-3})), ("api:rtol", dict(options={"table_rtol": 1e-3})),
            ("user:atol", dict(user_config={"table_atol": 1e-5})), ("api:atol", dict(options={"table_atol": 1e-5}))]


def work_config(item):
    label, kw = item
    targets = ["mass-P1-tri", "expression", "mixed-TH"]
    return dict(label=label, result=hist.run_history((), 0, targets, names=True, **kw))


def multi_object_requests():
    """(label, kind, builder) for (c): built with the real compiler via C19's classifier."""
    import basix.ufl
    import ufl

    el = basix.ufl.element
    out = []

    def mk(label, kind, f):
        out.append((label, kind, f))

    def two_same_form():
        m = ufl.Mesh(el("P", "triangle", 1, shape=(2,)))
        V = ufl.FunctionSpace(m, el("P", "triangle", 1))
        a = ufl.TrialFunction(V) * ufl.TestFunction(V) * ufl.dx
        return [a, a]
    mk("same form object twice", "forms", two_same_form)

    def two_equal_forms():
        fs = []
        for _ in range(2):
            m = ufl.Mesh(el("P", "triangle", 1, shape=(2,)))
            V = ufl.FunctionSpace(m, el("P", "triangle", 1))
            fs.append(ufl.TrialFunction(V) * ufl.TestFunction(V) * ufl.dx)
        return fs
    mk("two forms with equal signature", "forms", two_equal_forms)

    def three_forms_shared_integrals():
        m = ufl.Mesh(el("P", "triangle", 1, shape=(2,)))
        V = ufl.FunctionSpace(m, el("P", "triangle", 1))
        u, v = ufl.TrialFunction(V), ufl.TestFunction(V)
        return [u * v * ufl.dx, u * v * ufl.dx + u * v * ufl.ds, u * v * ufl.ds]
    mk("three forms sharing integrands", "forms", three_forms_shared_integrals)

    def same_expr_twice():
        m = ufl.Mesh(el("P", "triangle", 1, shape=(2,)))
        c = ufl.Coefficient(ufl.FunctionSpace(m, el("P", "triangle", 2)))
        p = np.array([[0.25, 0.25]])
        return [(ufl.grad(c), p), (ufl.grad(c), p)]
    mk("same expression and points twice", "exprs", same_expr_twice)

    def same_expr_other_points():
        m = ufl.Mesh(el("P", "triangle", 1, shape=(2,)))
        c = ufl.Coefficient(ufl.FunctionSpace(m, el("P", "triangle", 2)))
        return [(ufl.grad(c), np.array([[0.25, 0.25]])), (ufl.grad(c), np.array([[0.5, 0.25]]))]
    mk("same expression at two point sets", "exprs", same_expr_other_points)

    def two_exprs():
        m = ufl.Mesh(el("P", "triangle", 1, shape=(2,)))
        c = ufl.Coefficient(ufl.FunctionSpace(m, el("P", "triangle", 2)))
        p = np.array([[0.25, 0.25]])
        return [(c, p), (c * c, p)]
    mk("two expressions", "exprs", two_exprs)
    return out


def work_multi(label):
    import shutil
    import tempfile

    import ffcx.codegeneration.jit as jit

    from ..runner import scratch_root

    table = {l: (k, f) for l, k, f in multi_object_requests()}
    kind, f = table[label]
    objs = f()
    cache = tempfile.mkdtemp(prefix="jit13_", dir=scratch_root())
    invoked = {"n": 0}
    orig = jit.cffi.FFI.compile

    def spy(self, *a, **k):
        invoked["n"] += 1
        return orig(self, *a, **k)
    jit.cffi.FFI.compile = spy
    try:
        if kind == "forms":
            o, m, code = jit.compile_forms(objs, cache_dir=cache)
        else:
            o, m, code = jit.compile_expressions(objs, cache_dir=cache)
        return dict(label=label, outcome="built", n=len(o))
    except Exception as e:  # noqa: BLE001
        lines = [l for l in str(e).splitlines() if "error" in l.lower()]
        return dict(label=label, outcome="compiler-error" if invoked["n"] else "python-exception", detail=(lines[0] if lines else f"{type(e).__name__}: {e}")[-240:])
    finally:
        jit.cffi.FFI.compile = orig
        shutil.rmtree(cache, ignore_errors=True)


def work_hist(item):
    h, seed = item
    return dict(history=list(h), seed=seed, result=hist.run_history(h, seed, hist.TARGETS, names=True))


def main():
    chk = Check(PID)
    cov = dict(states=0, transitions=0, traces_validated_against_impl=0, exhaustive=True)
    # (b)
    nreq, npairs, fails, obs = separation()
    cov["catalogue_requests"], cov["request_pairs"] = nreq, npairs
    cov["states"] += nreq
    cov["transitions"] += npairs
    for a, b, text in fails:
        chk.violation(f"{PID}:separation:{a}|{b}", text, recipe=dict(kind="separation", a=a, b=b))
    # (c)
    labels = [l for l, _, _ in multi_object_requests()]
    for lab, r in pmap(work_multi, labels, desc="C13c"):
        cov["states"] += 1
        cov["traces_validated_against_impl"] += 1
        if r["outcome"] != "built":
            chk.violation(f"{PID}:multi-object:{lab}", f"request '{lab}' does not build: {r['outcome']}: {r.get('detail', '')}", recipe=dict(kind="multi", label=lab), observed=r)
    # (d)
    npair_h, pf = pair_histories()
    cov["in_process_pair_histories"] = npair_h
    cov["states"] += npair_h
    for a_, b_, text in pf:
        chk.violation(f"{PID}:pair-history:{a_}->{b_}", text, recipe=dict(kind="pair-history", a=a_, b=b_))
    # (e)
    cres = {}
    for it, r in pmap(work_config, config_jobs(), desc="C13e"):
        cres[r["label"]] = r["result"]
        cov["states"] += 1
    if any("error" in v for v in cres.values()):
        print("HARNESS-ERROR: config job failed", {k: v.get("error", "")[-200:] for k, v in cres.items() if "error" in v})
        raise SystemExit(2)
    for t in cres["none"]:
        for same_a, same_b in (("pwd:float32", "api:float32"), ("user:float32", "api:float32"), ("pwd:rtol", "api:rtol"), ("user:atol", "api:atol")):
            if cres[same_a][t]["module"] != cres[same_b][t]["module"]:
                chk.violation(f"{PID}:config:{t}:{same_a}!={same_b}", f"target {t}: the same option given through {same_a.split(':')[0]} ffcx_options.json and through the API yields different module names",
                              recipe=dict(kind="config", a=same_a, b=same_b, target=t))
        for d_a, d_b in (("none", "pwd:float32"), ("none", "user:float32"), ("none", "pwd:rtol"), ("none", "user:atol"), ("pwd:float32", "user:atol")):
            if cres[d_a][t]["module"] == cres[d_b][t]["module"] and cres[d_a][t]["sha"] != cres[d_b][t]["sha"]:
                chk.violation(f"{PID}:config:{t}:{d_a}=={d_b}", f"target {t}: option sources {d_a} and {d_b} generate different code but share the module name {cres[d_a][t]['module'][-10:]}",
                              recipe=dict(kind="config", a=d_a, b=d_b, target=t))
    # (a)
    depth = 2 if chk.thorough else 1
    seeds = [0, 1, 2, 3, 4, 5, 6, 7] if chk.thorough else [0, 1, 2]
    base = hist.run_history((), 0, hist.TARGETS, names=True)
    if "error" in base:
        print("HARNESS-ERROR:", base["error"][-300:])
        raise SystemExit(2)
    hs = [()] + [h for d in range(1, depth + 1) for h in itertools.product(hist.OPS, repeat=d)]
    items = [(h, s) for h in hs for s in seeds if not (h == () and s == 0)]
    seen = set()
    nproc = 1
    for it, r in pmap(work_hist, items, desc="C13a"):
        nproc += 1
        res = r["result"]
        if "error" in res:
            chk.violation(f"{PID}:history-raises:{''.join(r['history'])}", f"history {r['history']} seed {r['seed']}: {res['error'][-160:]}", recipe=dict(kind="hist", history=r["history"], seed=r["seed"]))
            continue
        for t in hist.TARGETS:
            if "@" in t:
                continue  # numba variants of a target have no JIT names
            cov["traces_validated_against_impl"] += 1
            if res[t]["module"] != base[t]["module"] or res[t]["objects"] != base[t]["objects"] or res[t].get("module_with_flags") != base[t].get("module_with_flags"):
                # histories that change numpy's print options form a class of their own (text that goes through repr() of an array)
                cause = "hash-seed" if not r["history"] else ("history:P" if "P" in r["history"] else "history" if r["seed"] == 0 else "history+hash-seed")
                k = f"{PID}:stability:{t}:{cause}"
                if k not in seen:
                    seen.add(k)
                    chk.violation(k, f"target {t}: module/object names after history {r['history']} with PYTHONHASHSEED={r['seed']} are {res[t]['module'][-10:]}/{[o[-10:] for o in res[t]['objects']]}, "
                                  f"in the empty-history process {base[t]['module'][-10:]}/{[o[-10:] for o in base[t]['objects']]}", recipe=dict(kind="hist", history=r["history"], seed=r["seed"], target=t))
    cov["states"] += nproc
    cov["transitions"] += sum(len(h) for h in hs) * len(seeds)
    cov["processes"] = nproc
    cov["evaluations"] = cov["states"]
    cov["distinct_nontrivial"] = nreq
    cov["samples"] = [dict(request=o["label"], module=o["module"][-16:]) for o in obs[:6]]
    cov["rule"] = ("(a) all histories of depth <= %d x %d hash seeds, fresh process each, names of %d targets; (b) all pairs of %d catalogue requests; (c) %d multi-object requests built with gcc"
                   % (depth, len(seeds), len(hist.TARGETS), nreq, len(labels)))
    chk.finish(cov, assumptions=["'would generate different kernels' is judged by the generated source with 40-digit hashes normalised, plus compiler flags / debug flag",
                                 "histories and seeds are bounded sets"])


def replay(path):
    doc = json.load(open(path))
    rec = doc["recipe"]
    if rec["kind"] == "separation":
        n, p, fails, obs = separation()
        for a, b, t in fails:
            if a == rec["a"] and b == rec["b"]:
                print(t)
                return 1
        return 0
    if rec["kind"] == "multi":
        r = work_multi(rec["label"])
        print(r)
        return 0 if r["outcome"] == "built" else 1
    r = work_hist((tuple(rec["history"]), rec["seed"]))
    print(json.dumps(r["result"], indent=1)[:1500])
    return 1
