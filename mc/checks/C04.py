"""C04 - expression kernels evaluate the expression at the given points (DESIGN §4 C04).

Deviation graph over expression recipes (cell x geometry class x expression kind [scalar/vector/tensor valued] x
argument [none / P1 / P2 / vector P1 / N1curl] x point set x scalar type); point sets on facets are evaluated for EVERY
(local facet, permutation code).  Oracle: R in expression mode -> A[point][component][dof]; the descriptor fields
(num_points, points, entity_dimension, value_shape, num_components, rank, counts, original_coefficient_positions) are
recomputed from the UFL expression.  A is pre-filled (kernels must add), inputs are moated.
"""

from __future__ import annotations

import json

import basix
import basix.ufl
import numpy as np
import ufl

from .. import engine, forms, oracle
from ..runner import Check, pmap, scratch_root

PID = "C04"
TD = oracle.TDIM

KINDS = ["f", "fg", "sinx", "sqrt", "cond", "c0f", "gradf.gradg", "divvf", "cellvol", "x0",  # scalar
         "gradf", "vf", "x", "cvf", "asvec", "cT.gradf", "jac",  # vector / matrix
         "gradvf", "outer", "cTf", "symgrad", "hessg",  # tensor
         "elimdiff3", "elimdiff", "elimdiff2",  # preprocessing eliminates a coefficient that precedes surviving ones (descriptor lists the survivors; w holds only them)
         "n.gradg", "n", "facetarea"]  # facet points only
ARGS = ["none", "P1", "P2", "vP1", "N1curl1", "DG0", "vDG0", "P1xDG0"]
POINTS = ["interior", "vertices", "interpP2", "two", "facet", "facet3"]
DIMS = {"kind": KINDS, "arg": ARGS, "points": POINTS, "geom": ["affine", "general", "p2", "manifold"],
        "scalar": ["float64", "float32", "complex128", "complex64"], "argop": ["val", "grad", "div", "comp"]}
CORE = {"kind": ["fg", "gradf", "gradvf", "cond"], "arg": ["P1", "vP1"], "points": ["vertices", "facet"], "geom": ["p2"], "scalar": ["complex128"], "argop": ["grad"]}


def baseline(cell):
    return dict(cell=cell, geom="affine", kind="f", arg="none", argop="val", points="interior", scalar="float64")


def key(cfg):
    return ",".join(f"{k}={cfg[k]}" for k in ("cell", "geom", "kind", "arg", "argop", "points", "scalar"))


def explore(radius):
    nodes, edges = {}, 0
    for cell in ["triangle", "interval", "quadrilateral", "tetrahedron", "hexahedron", "prism"]:
        b = baseline(cell)
        nodes[key(b)] = b
        frontier = [(b, frozenset())]
        for d in range(1, radius + 1):
            nxt = []
            for cfg, used in frontier:
                for dim, vals in DIMS.items():
                    if dim in used:
                        continue
                    for v in (vals if d == 1 else CORE[dim]):
                        if cfg[dim] == v:
                            continue
                        c2 = dict(cfg)
                        c2[dim] = v
                        edges += 1
                        nodes.setdefault(key(c2), c2)
                        nxt.append((c2, used | {dim}))
            seen = set()
            frontier = []
            for c2, used in nxt:
                kk = (key(c2), used)
                if kk not in seen:
                    seen.add(kk)
                    frontier.append((c2, used))
    # rank-1 expressions with every argument operator on the triangle, and the facet point sets with arguments
    for arg in ARGS[1:]:
        for op in DIMS["argop"]:
            for pts in ("interior", "facet"):
                c = dict(baseline("triangle"), arg=arg, argop=op, points=pts, kind="fg")
                nodes.setdefault(key(c), c)
                c = dict(baseline("tetrahedron"), arg=arg, argop=op, points=pts, kind="f")
                nodes.setdefault(key(c), c)
    return nodes, edges


def build(cfg):
    cell, geom = cfg["cell"], cfg["geom"]
    mesh, gdim, cdeg = forms.make_mesh(cell, geom)
    tdim = TD[cell]
    el = basix.ufl.element
    V1 = ufl.FunctionSpace(mesh, el("P", cell, 1))
    V2 = ufl.FunctionSpace(mesh, el("P", cell, 2))
    VV = ufl.FunctionSpace(mesh, el("P", cell, 1, shape=(gdim,)))
    k0 = ufl.Coefficient(ufl.FunctionSpace(mesh, el("DG", cell, 0)))  # created first: precedes every other coefficient in the original numbering
    f, g, vf = ufl.Coefficient(V1), ufl.Coefficient(V2), ufl.Coefficient(VV)
    c0 = ufl.Constant(mesh)
    cv = ufl.Constant(mesh, shape=(gdim,))
    cT = ufl.Constant(mesh, shape=(gdim, gdim))
    x = ufl.SpatialCoordinate(mesh)
    n = ufl.FacetNormal(mesh)
    kind = cfg["kind"]
    facet_pts = cfg["points"].startswith("facet")
    if kind in ("n.gradg", "n", "facetarea") and not facet_pts:
        raise forms.Inapplicable("facet quantity needs facet points")
    if kind == "facetarea" and (tdim < 2 or cdeg != 1 or cell not in forms.SIMPLEX):
        raise forms.Inapplicable("facet area on affine simplices")
    re = ufl.real
    E = {
        "f": lambda: f, "fg": lambda: f * g, "sinx": lambda: ufl.sin(f) + x[0], "sqrt": lambda: ufl.sqrt(1.0 + f * f),
        "cond": lambda: ufl.conditional(ufl.lt(re(f), re(g)), 1.5 * f, 2.0 + g), "c0f": lambda: c0 * f + cv[gdim - 1],
        "gradf.gradg": lambda: ufl.inner(ufl.grad(f), ufl.grad(g)), "divvf": lambda: ufl.div(vf), "cellvol": lambda: ufl.CellVolume(mesh) * f,
        "x0": lambda: x[0] * x[gdim - 1], "gradf": lambda: ufl.grad(g), "vf": lambda: vf, "x": lambda: x, "cvf": lambda: cv * f,
        "asvec": lambda: ufl.as_vector([f, g * f]), "cT.gradf": lambda: ufl.dot(cT, ufl.grad(f)), "jac": lambda: ufl.Jacobian(mesh),
        "gradvf": lambda: ufl.grad(vf), "outer": lambda: ufl.outer(ufl.grad(f), ufl.grad(g)), "cTf": lambda: cT * f,
        "symgrad": lambda: ufl.sym(ufl.grad(vf)), "hessg": lambda: ufl.grad(ufl.grad(g)),
        "elimdiff3": lambda: _elimdiff(g, f, vf), "elimdiff": lambda: _elimdiff(k0, g, vf), "elimdiff2": lambda: _elimdiff(f, vf[0], g) * k0,
        "n.gradg": lambda: ufl.inner(n, ufl.grad(g)), "n": lambda: n * f, "facetarea": lambda: ufl.FacetArea(mesh) * f,
    }[kind]
    if kind == "cellvol" and (cdeg != 1 or cell not in forms.SIMPLEX):
        raise forms.Inapplicable("cell volume of affine simplices only")
    e = E()
    arg = cfg["arg"]
    if arg != "none":
        if arg == "P1xDG0":
            ael = basix.ufl.mixed_element([el("P", cell, 1), el("DG", cell, 0)])
        elif arg == "vDG0":
            ael = el("DG", cell, 0, shape=(gdim,))
        elif arg == "DG0":
            ael = el("DG", cell, 0)
        else:
            ael = forms.make_element(arg, cell, gdim)
        u = ufl.TrialFunction(ufl.FunctionSpace(mesh, ael))
        op = cfg["argop"]
        if op == "val":
            ua = u
        elif op == "grad":
            if arg in ("DG0", "vDG0"):
                raise forms.Inapplicable("gradient of piecewise constants")
            ua = ufl.grad(u)
        elif op == "div":
            if len(u.ufl_shape) != 1 or u.ufl_shape[0] != gdim:
                raise forms.Inapplicable("div needs a vector argument")
            ua = ufl.div(u)
        elif op == "comp":
            if u.ufl_shape == ():
                raise forms.Inapplicable("component of scalar argument")
            ua = u[tuple(s - 1 for s in u.ufl_shape)]
        # combine: scalar expression times argument quantity, or contraction when both are tensors
        if e.ufl_shape == ():
            e = e * ua
        elif ua.ufl_shape == ():
            e = e * ua
        elif e.ufl_shape == ua.ufl_shape:
            e = ufl.inner(ua, e)
        elif len(e.ufl_shape) == 2 and len(ua.ufl_shape) == 1 and e.ufl_shape[1] == ua.ufl_shape[0]:
            e = ufl.dot(e, ua)
        elif len(e.ufl_shape) == 1 and len(ua.ufl_shape) == 1:
            e = ufl.outer(e, ua)
        else:
            raise forms.Inapplicable("shape combination")
    elif cfg["argop"] != "val":
        raise forms.Inapplicable("argument operator without argument")
    # points
    pk = cfg["points"]
    ct = oracle.celltype(cell)
    ref = np.asarray(basix.geometry(ct))
    if pk == "interior":
        P = ref.mean(axis=0, keepdims=True) * 0.9 + 0.02
    elif pk == "vertices":
        P = ref.copy()
    elif pk == "interpP2":
        P = np.asarray(el("P", cell, 2)._element.points)
    elif pk == "two":
        P = np.vstack([ref.mean(axis=0) * 0.7 + 0.05, ref.mean(axis=0) * 1.1 - 0.01])
    else:
        if tdim == 1:
            raise forms.Inapplicable("no facet points in 1D (point facets)")
        if cell == "prism":
            raise forms.Inapplicable("prism facets have two types")
        fct = basix.cell.subentity_types(ct)[tdim - 1][0]
        fref = np.asarray(basix.geometry(fct))
        c = fref.mean(axis=0)
        P = np.vstack([c * 0.6 + 0.07, c * 1.2 - 0.03]) if pk == "facet" else np.vstack([c * 0.6 + 0.07, c * 1.2 - 0.03, fref[0] * 0.5 + c * 0.5])
    return mesh, e, np.ascontiguousarray(P, dtype=np.float64), dict(f=f, g=g, vf=vf, k0=k0), dict(c0=c0, cv=cv, cT=cT), cdeg, gdim


def _elimdiff(a, b, c):
    """d/dv (a + b v.v / 2) at v = c: the additive coefficient a disappears under the derivative, b and c survive."""
    v = ufl.variable(c)
    return ufl.diff(a + 0.5 * b * ufl.inner(v, v), v)


def work(item):
    k0, cfg, seed = item
    res = dict(key=k0, status="ok", calls=0, nontrivial=0, maxerr=0.0, failures=[])
    try:
        mesh, e, P, coefs, consts, cdeg, gdim = build(cfg)
    except forms.Inapplicable as ex:
        res["status"] = "inapplicable"
        return res
    except Exception as ex:
        res["status"] = "inapplicable"
        res["why"] = f"UFL build: {type(ex).__name__}: {str(ex)[:80]}"
        return res
    import shutil
    import tempfile

    import ffcx.codegeneration.jit as jit

    cell = cfg["cell"]
    tdim = TD[cell]
    scalar = cfg["scalar"]
    cmplx = "complex" in scalar
    cache = tempfile.mkdtemp(prefix="jitx_", dir=scratch_root())
    try:
        try:
            pe = oracle.preprocess_expression(e, cmplx)
        except Exception as ex:
            res["status"] = "inapplicable"
            res["why"] = f"UFL: {type(ex).__name__}: {str(ex)[:80]}"
            return res
        try:
            (xo,), module, code = jit.compile_expressions([(e, P)], options={"scalar_type": scalar}, cache_dir=cache)
        except Exception as ex:
            res["status"] = "rejected"
            res["why"] = f"{type(ex).__name__}: {str(ex)[:160]}"
            return res
        # descriptor, recomputed from the UFL expression
        orig_coeffs = ufl.algorithms.extract_coefficients(e)
        used_coeffs = ufl.algorithms.extract_coefficients(pe)
        orig_consts = ufl.algorithms.analysis.extract_constants(e)
        args = ufl.algorithms.extract_arguments(e)
        want = dict(num_points=P.shape[0], entity_dimension=P.shape[1], rank=len(args), num_components=len(e.ufl_shape),
                    num_coefficients=len(used_coeffs), num_constants=len(orig_consts))
        got = {k: getattr(xo, k) for k in want}
        if got != want:
            res["failures"].append(dict(kind="descriptor", text=f"expression descriptor {got} but the expression implies {want}"))
        vs = [xo.value_shape[i] for i in range(xo.num_components)] if xo.num_components else []
        if list(e.ufl_shape) != vs:
            res["failures"].append(dict(kind="descriptor-shape", text=f"value_shape {vs} but the expression has shape {list(e.ufl_shape)}"))
        pts = np.array([xo.points[i] for i in range(P.size)]).reshape(P.shape) if P.size else P
        if not np.array_equal(pts, P):
            res["failures"].append(dict(kind="descriptor-points", text="descriptor points differ from the requested points"))
        pos = [xo.original_coefficient_positions[i] for i in range(xo.num_coefficients)]
        want_pos = [orig_coeffs.index(c) for c in used_coeffs]
        if pos != want_pos:
            res["failures"].append(dict(kind="descriptor-positions", text=f"original_coefficient_positions {pos} but the surviving coefficients are at {want_pos}"))
        if res["failures"]:
            res["status"] = "violation"
            return res
        # data
        rng = np.random.default_rng([seed, 13])
        (inst, X), = engine.geometry_instances(mesh, cell, cfg["geom"], rng, ("aff",))
        w = {}
        for c in orig_coeffs:
            v = rng.uniform(0.6, 1.4, size=c.ufl_element().dim)
            w[c] = v + (1j * rng.uniform(-0.3, 0.3, size=v.shape) if cmplx else 0)
        cvals = {}
        for k in orig_consts:
            v = rng.uniform(0.5, 1.5, size=k.ufl_shape or (1,))
            cvals[k] = v + (1j * rng.uniform(-0.3, 0.3, size=v.shape) if cmplx else 0)
        wv = np.concatenate([w[orig_coeffs[p]] for p in pos]) if pos else np.zeros(0)
        cv = np.concatenate([np.asarray(cvals[k]).ravel() for k in orig_consts]) if orig_consts else np.zeros(0)
        ncomp = int(np.prod(e.ufl_shape)) if e.ufl_shape else 1
        ndof = args[0].ufl_function_space().ufl_element().dim if args else 1
        nA = P.shape[0] * ncomp * ndof
        if P.shape[1] == tdim:
            combos = [(None, 0)]
        else:
            nf = oracle.num_entities(cell, tdim - 1)
            fcell = oracle.entity_cellname(cell, tdim - 1, 0)
            combos = [(fc, cd) for fc in range(nf) for cd in range(oracle.num_permutation_codes(fcell))]
        tol = engine.TOL[scalar]
        for fc, cd in combos:
            try:
                R = oracle.expression_tensor(e, P, X, w, cvals, cmplx=cmplx, entity=fc, code=cd)
            except NotImplementedError as ex:
                res["status"] = "oracle-unsupported"
                res["why"] = str(ex)
                return res
            R = np.asarray(R).reshape(-1)
            A0 = np.linspace(0.5, 1.5, nA)
            call = engine.Call(scalar, A0, wv, cv, engine.pack_geometry([X]), (fc if fc is not None else 0,), (cd, 0), null_entity=(fc is None))
            call.run(xo)
            A = call.result() - A0.astype(call.A.dtype)
            res["calls"] += 1
            sc = max(float(np.max(np.abs(R))) if R.size else 0.0, 1e-30)
            if sc > 1e-12:
                res["nontrivial"] += 1
            err = float(np.max(np.abs(A - R))) / max(sc, 1.0) if R.size else 0.0
            res["maxerr"] = max(res["maxerr"], err)
            br = call.breaches()
            if br or not np.all(np.isfinite(A)) or err > tol * 5:
                res["failures"].append(dict(kind="mismatch" if not br else "breach", facet=fc, code=cd, relerr=err,
                                            text=f"expression kernel (facet={fc}, code={cd}) deviates from the reference A[point][component][dof] by {err:.2e} {br} "
                                            f"(A pre-filled: kernels must add)"))
                if len(res["failures"]) >= 3:
                    break
        if res["failures"]:
            res["status"] = "violation"
        return res
    finally:
        shutil.rmtree(cache, ignore_errors=True)


def main():
    chk = Check(PID)
    nodes, edges = explore(2 if chk.thorough else 1)
    items = [(k, cfg, chk.seed) for k, cfg in nodes.items()]
    tot = dict(items=len(items), ok=0, inapplicable=0, rejected=0, oracle_unsupported=0, violating=0, kernel_calls=0, nontrivial=0)
    samples, rejected = [], []
    for it, r in pmap(work, items, desc="C04"):
        tot["kernel_calls"] += r["calls"]
        st = r["status"]
        if st == "ok":
            tot["ok"] += 1
            tot["nontrivial"] += 1 if r["nontrivial"] else 0
            if len(samples) < 6 and r["calls"] > 1:
                samples.append(dict(config=r["key"], kernel_calls=r["calls"], max_err=r["maxerr"]))
        elif st == "violation":
            tot["violating"] += 1
            f = r["failures"][0]
            chk.violation(f"{PID}:{r['key']}:{f['kind']}", f["text"], recipe=dict(config=it[1], seed=chk.seed), observed=r["failures"][:3])
        else:
            tot[st.replace("-", "_")] += 1
            if st in ("rejected", "oracle-unsupported"):
                rejected.append((r["key"], st, r.get("why", "")[:120]))
    cov = dict(states=len(items), transitions=edges, traces_validated_against_impl=tot["ok"] + tot["violating"], evaluations=tot["kernel_calls"],
               distinct_nontrivial=tot["nontrivial"], totals=tot, rejected=rejected[:40], samples=samples or [dict(note="none")], exhaustive=True,
               rule=("expression recipes within radius d of the per-cell baseline over (kind, argument, argument operator, point set, geometry class, scalar type) plus all "
                     "argument x operator x {cell, facet} point combinations on triangle/tetrahedron; facet point sets evaluated for every (local facet, permutation code); "
                     "A pre-filled; non-trivial = reference not identically zero"))
    chk.finish(cov, assumptions=["reference model R in expression mode (own preprocessing with UFL passes, core basix tabulation)",
                                 "facet permutation convention as written in mc/oracle.permute_points"])


def replay(path):
    doc = json.load(open(path))
    r = work(("replay", doc["recipe"]["config"], doc["recipe"].get("seed", 0)))
    print(r["status"], r.get("why", ""))
    for f in r["failures"]:
        print("  ", f["text"])
    return 1 if r["status"] == "violation" else 0
