"""C19 - accepted input always yields valid C; rejected input fails before the compiler (DESIGN §4 C19).

Outcome classes are observed, not inferred: the builder entry (cffi.FFI.compile) is wrapped, so
  rejected   = Python exception raised before the C compiler was invoked,
  accepted   = compiler invoked and succeeded under -std=c17 -Werror=implicit-function-declaration,
  invalid-c  = compiler invoked and failed (violation),
  hang       = no outcome within the time limit (violation)
are distinguished exactly.
(a) every configuration of the form corpus and of the expression corpus: accepted, or rejected with a signature on the
    committed list of legitimate rejections (mc/data/c19_rejections.json); anything else is a violation.
(b) an explicit alphabet of unsupported constructs in every slot the grammar admits them: each must be rejected.
(c) the COMPLETE set of pairs of quadrature rules that can meet in one kernel (per cell and facet type: degrees 0..30 x
    schemes): ids must differ whenever the rules differ (computed for all pairs from the real QuadratureRule.id()); every
    colliding pair and a covering sample of the others are compiled.
(d) name-clash drivers: the same rule on both facet types of a prism with coefficients, several rules, many tables.
"""

from __future__ import annotations

import fnmatch
import itertools
import json
import os
import shutil
import signal
import tempfile

import basix
import basix.ufl
import numpy as np
import ufl

from .. import audit, forms, oracle
from ..runner import VERIF, Check, pmap, scratch_root

PID = "C19"
TIME_LIMIT = 240


class _Timeout(BaseException):
    pass


def classify(kind, obj, scalar="float64", options=None):
    """kind: 'form' (obj = ufl.Form) or 'expr' (obj = (expr, points)). Returns (outcome, detail)."""
    import cffi
    import ffcx.codegeneration.jit as jit

    invoked = {"n": 0}
    orig = jit.cffi.FFI.compile

    def spy(self, *a, **k):
        invoked["n"] += 1
        return orig(self, *a, **k)

    import resource
    import time as _time

    def _cpu():
        a, b = resource.getrusage(resource.RUSAGE_SELF), resource.getrusage(resource.RUSAGE_CHILDREN)
        return a.ru_utime + a.ru_stime + b.ru_utime + b.ru_stime

    t_start, cpu_start = _time.time(), _cpu()

    def on_alarm(signum, frame):
        # "hang" = CPU time of this request (generator + finished compiler children) beyond TIME_LIMIT, or 10 x TIME_LIMIT of wall time:
        # a busy machine stretches wall time, not CPU time, and must not turn a slow build into a verdict
        if _cpu() - cpu_start > TIME_LIMIT or _time.time() - t_start > 10 * TIME_LIMIT:
            raise _Timeout()
        signal.alarm(30)

    cache = tempfile.mkdtemp(prefix="jit19_", dir=scratch_root())
    opts = dict(options or {})
    opts["scalar_type"] = scalar
    jit.cffi.FFI.compile = spy
    old = signal.signal(signal.SIGALRM, on_alarm)
    signal.alarm(TIME_LIMIT)
    try:
        if kind == "form":
            jit.compile_forms([obj], options=opts, cache_dir=cache, cffi_extra_compile_args=["-Werror=implicit-function-declaration"])
        else:
            jit.compile_expressions([obj], options=opts, cache_dir=cache, cffi_extra_compile_args=["-Werror=implicit-function-declaration"])
        return "accepted", ""
    except _Timeout:
        return "hang", f"no outcome within {TIME_LIMIT}s of CPU time / {10 * TIME_LIMIT}s of wall time"
    except BaseException as e:  # noqa: BLE001
        msg = f"{type(e).__name__}: {str(e)}"
        if invoked["n"]:
            # keep the compiler's own complaint
            lines = [l for l in str(e).splitlines() if "error" in l.lower()]
            return "invalid-c", (lines[0] if lines else msg)[-300:]
        return "rejected", msg[:300]
    finally:
        signal.alarm(0)
        signal.signal(signal.SIGALRM, old)
        jit.cffi.FFI.compile = orig
        shutil.rmtree(cache, ignore_errors=True)


def load_rejections():
    p = os.path.join(VERIF, "mc", "data", "c19_rejections.json")
    return json.load(open(p))["legitimate_rejections"]


def legit(rej, key, detail):
    for r in rej:
        if fnmatch.fnmatchcase(detail, r["message"]) and fnmatch.fnmatchcase(key, r.get("where", "*")):
            return True
    return False


# ---------------------------------------------------------------------------------------------------
def unsupported_alphabet():
    """(name, builder) - each returns ('form'|'expr', object). All must be rejected before the compiler."""
    out = []
    el = basix.ufl.element

    def mesh(cell, deg=1):
        d = oracle.TDIM[cell]
        return ufl.Mesh(el("P", cell, deg, shape=(d,))), d

    def mk(name, fn):
        out.append((name, fn))

    for cell in ("triangle", "tetrahedron", "quadrilateral"):
        def custom(cell=cell):
            m, d = mesh(cell)
            V = ufl.FunctionSpace(m, el("P", cell, 1))
            v = ufl.TestFunction(V)
            return "form", v * ufl.Measure("dc", domain=m)
        mk(f"custom-measure-dc@{cell}", custom)

        def vert_dg(cell=cell):
            m, d = mesh(cell)
            V = ufl.FunctionSpace(m, el("DG", cell, 1))
            return "form", ufl.TestFunction(V) * ufl.dP(domain=m)
        mk(f"vertex-integral-of-DG@{cell}", vert_dg)

        def vert_dg_coeff(cell=cell):
            m, d = mesh(cell)
            V = ufl.FunctionSpace(m, el("P", cell, 1))
            f = ufl.Coefficient(ufl.FunctionSpace(m, el("DG", cell, 0)))
            return "form", f * ufl.TestFunction(V) * ufl.dP(domain=m)
        mk(f"vertex-integral-with-DG-coefficient@{cell}", vert_dg_coeff)

        def two_arg_expr(cell=cell):
            m, d = mesh(cell)
            V = ufl.FunctionSpace(m, el("P", cell, 1))
            return "expr", (ufl.TrialFunction(V) * ufl.TestFunction(V), np.asarray(basix.geometry(oracle.celltype(cell)), dtype=float))
        mk(f"two-argument-expression@{cell}", two_arg_expr)

        def nonlinear_arg(cell=cell):
            m, d = mesh(cell)
            V = ufl.FunctionSpace(m, el("P", cell, 1))
            return "form", ufl.sin(ufl.TestFunction(V)) * ufl.dx(domain=m)
        mk(f"argument-under-sin@{cell}", nonlinear_arg)

        def arg_denominator(cell=cell):
            m, d = mesh(cell)
            V = ufl.FunctionSpace(m, el("P", cell, 1))
            f = ufl.Coefficient(V)
            return "form", f / (1 + ufl.TestFunction(V)) * ufl.dx(domain=m)
        mk(f"argument-in-denominator@{cell}", arg_denominator)

        def arg_squared(cell=cell):
            m, d = mesh(cell)
            V = ufl.FunctionSpace(m, el("P", cell, 1))
            v = ufl.TestFunction(V)
            return "form", v * v * ufl.dx(domain=m)
        mk(f"argument-squared@{cell}", arg_squared)

        for fn_name in ("bessel_I", "bessel_K"):
            def bess(cell=cell, fn_name=fn_name):
                m, d = mesh(cell)
                V = ufl.FunctionSpace(m, el("P", cell, 1))
                f = ufl.Coefficient(V)
                return "form", getattr(ufl, fn_name)(1, f) * ufl.TestFunction(V) * ufl.dx(domain=m)
            mk(f"{fn_name}@{cell}", bess)

            def bess_e(cell=cell, fn_name=fn_name):
                m, d = mesh(cell)
                f = ufl.Coefficient(ufl.FunctionSpace(m, el("P", cell, 1)))
                return "expr", (getattr(ufl, fn_name)(0, f), np.asarray(basix.geometry(oracle.celltype(cell)), dtype=float)[:1] * 0.3 + 0.1)
            mk(f"{fn_name}-expression@{cell}", bess_e)

        def mismatch_quad(cell=cell):
            m, d = mesh(cell)
            Q1 = ufl.FunctionSpace(m, basix.ufl.quadrature_element(cell, degree=1))
            Q3 = ufl.FunctionSpace(m, basix.ufl.quadrature_element(cell, degree=3))
            V = ufl.FunctionSpace(m, el("P", cell, 1))
            return "form", ufl.Coefficient(Q1) * ufl.Coefficient(Q3) * ufl.TestFunction(V) * ufl.dx(domain=m)
        mk(f"mismatching-quadrature-elements@{cell}", mismatch_quad)

    def prism_dS():
        m, d = mesh("prism")
        V = ufl.FunctionSpace(m, el("DG", "prism", 1))
        v = ufl.TestFunction(V)
        return "form", v("+") * ufl.dS(domain=m)
    mk("interior-facet-of-prism", prism_dS)

    for cell, deg in (("triangle", 2), ("quadrilateral", 1), ("hexahedron", 1)):
        def circ(cell=cell, deg=deg):
            m, d = mesh(cell, deg)
            V = ufl.FunctionSpace(m, el("P", cell, 1))
            return "form", ufl.Circumradius(m) * ufl.TestFunction(V) * ufl.dx(domain=m)
        mk(f"circumradius-nonaffine@{cell}{deg}", circ)

        def cvol(cell=cell, deg=deg):
            m, d = mesh(cell, deg)
            V = ufl.FunctionSpace(m, el("P", cell, 1))
            return "form", ufl.CellVolume(m) * ufl.TestFunction(V) * ufl.dx(domain=m)
        mk(f"cellvolume-nonaffine@{cell}{deg}", cvol)

        def farea(cell=cell, deg=deg):
            m, d = mesh(cell, deg)
            V = ufl.FunctionSpace(m, el("P", cell, 1))
            return "form", ufl.FacetArea(m) * ufl.TestFunction(V) * ufl.ds(domain=m)
        mk(f"facetarea-nonaffine@{cell}{deg}", farea)

    return out


def edge_forms():
    """Supported but unusual inputs that must be accepted (valid C)."""
    out = []
    el = basix.ufl.element

    def mk(name, fn):
        out.append((name, fn))

    for cell in ("triangle", "prism", "hexahedron"):
        d = oracle.TDIM[cell]

        def many_rules(cell=cell, d=d):
            m = ufl.Mesh(el("P", cell, 1, shape=(d,)))
            V = ufl.FunctionSpace(m, el("P", cell, 2))
            f, v = ufl.Coefficient(V), ufl.TestFunction(V)
            return "form", sum(ufl.sin(f * float(q + 1)) * v * ufl.dx(domain=m, metadata={"quadrature_degree": q}) for q in (0, 1, 2, 3, 5, 8))
        mk(f"six-rules-one-integral@{cell}", many_rules)

        def facet_coeff(cell=cell, d=d):
            m = ufl.Mesh(el("P", cell, 1, shape=(d,)))
            V = ufl.FunctionSpace(m, el("P", cell, 1))
            f, g = ufl.Coefficient(V), ufl.Coefficient(V)
            u, v = ufl.TrialFunction(V), ufl.TestFunction(V)
            return "form", f * ufl.inner(u, v) * ufl.ds(domain=m) + g * ufl.inner(u, v) * ufl.ds(1, domain=m) + f * g * u * v * ufl.dx(domain=m)
        mk(f"facet-integrals-with-coefficients@{cell}", facet_coeff)

    for cell in ("triangle", "quadrilateral", "tetrahedron"):
        d = oracle.TDIM[cell]

        def custom_rules(cell=cell, d=d, variant="weights"):
            # user-supplied rules: same points / other weights, same weights / other points, the points of a built-in rule with other weights
            m = ufl.Mesh(el("P", cell, 1, shape=(d,)))
            V = ufl.FunctionSpace(m, el("P", cell, 1))
            f, v = ufl.Coefficient(V), ufl.TestFunction(V)
            p, w = basix.make_quadrature(oracle.celltype(cell), 2)
            p, w = np.ascontiguousarray(p), np.asarray(w)
            a = {"quadrature_rule": "custom", "quadrature_points": p, "quadrature_weights": w * 1.25}
            if variant == "weights":
                b = {"quadrature_rule": "custom", "quadrature_points": p.copy(), "quadrature_weights": w[::-1] * 0.5}
            elif variant == "points":
                b = {"quadrature_rule": "custom", "quadrature_points": p * 0.9 + 0.01, "quadrature_weights": w * 1.25}
            else:
                b = {"quadrature_degree": 2}
            return "form", ufl.exp(f) * v * ufl.dx(domain=m, metadata=a) + ufl.sin(f) * v * ufl.dx(domain=m, metadata=b)
        for variant in ("weights", "points", "builtin"):
            mk(f"custom-rules-same-{variant}@{cell}", lambda c=cell, dd=d, vv=variant: custom_rules(c, dd, vv))

    for cell in ("triangle", "tetrahedron", "hexahedron"):
        d = oracle.TDIM[cell]

        def facet_scheme_sequences(cell=cell, d=d, variant="vertex+vertex"):
            # several integrals of ONE facet group whose rule is set per integral (vertex scheme twice with different metadata; a user rule after a built-in one)
            m = ufl.Mesh(el("P", cell, 1, shape=(d,)))
            V = ufl.FunctionSpace(m, el("P", cell, 1))
            f, v = ufl.Coefficient(V), ufl.TestFunction(V)
            vmd = {"quadrature_rule": "vertex", "quadrature_degree": 1}
            ent = oracle.entity_cellname(cell, d - 1, 0)
            p, w = basix.make_quadrature(oracle.celltype(ent), 3)
            cmd = {"quadrature_rule": "custom", "quadrature_points": np.ascontiguousarray(p), "quadrature_weights": np.asarray(w)}
            first, second = {"vertex+vertex": (vmd, {"quadrature_rule": "vertex", "quadrature_degree": 2}), "default+custom": ({"quadrature_degree": 2}, cmd),
                             "custom+vertex": (cmd, vmd)}[variant]
            M = ufl.ds
            return "form", ufl.exp(f) * v * M(domain=m, metadata=first) + ufl.sin(f) * v * M(domain=m, metadata=second)
        for variant in ("vertex+vertex", "default+custom", "custom+vertex"):
            mk(f"facet-rules-{variant}@{cell}", lambda c=cell, dd=d, vv=variant: facet_scheme_sequences(c, dd, vv))

    def pow_literal_base(scalar):
        def f():
            m = ufl.Mesh(el("P", "triangle", 1, shape=(2,)))
            V = ufl.FunctionSpace(m, el("P", "triangle", 1))
            w = ufl.Coefficient(V)
            return "form", (2.0 ** w) * ufl.conj(ufl.TestFunction(V)) * ufl.dx(domain=m)
        return f
    # (the complex128 variant of this form never returns from UFL's own preprocessing - outside FFCx, see DESIGN §5 - and is not used)
    mk("literal-base-power@float64", pow_literal_base("float64"))

    def neg_literals():
        m = ufl.Mesh(el("P", "triangle", 1, shape=(2,)))
        V = ufl.FunctionSpace(m, el("P", "triangle", 1))
        w = ufl.Coefficient(V)
        return "form", (-1) * (-2.5) * (-(w * (-3.0))) * ufl.TestFunction(V) * ufl.dx(domain=m)
    mk("products-of-negative-literals", neg_literals)
    return out


# ---------------------------------------------------------------------------------------------------
def rule_id(points):
    from ffcx.ir.representationutils import QuadratureRule

    r = QuadratureRule(np.ascontiguousarray(points), np.ones(len(points)))
    hash(r)
    return r.id()


def all_rules(cell):
    """All (label, points) the grammar can request on this entity cell type."""
    out = []
    ct = oracle.celltype(cell)
    for q in range(31):
        for sch in ("default", "GLL", "Gauss-Jacobi"):
            try:
                p, w = basix.make_quadrature(ct, q, rule=basix.quadrature.string_to_type(sch))
            except Exception:  # noqa: BLE001
                continue
            out.append((f"{sch}:{q}", np.ascontiguousarray(p)))
    out.append(("vertex", np.ascontiguousarray(basix.geometry(ct))))
    return out


def work(item):
    kind = item[0]
    if kind == "cfg":
        _, key, cfg, scalar = item
        try:
            B = forms.build(cfg)
        except Exception:
            return dict(key=key, outcome="inapplicable", detail="")
        o, d = classify("form", B.form, scalar)
        return dict(key=key, outcome=o, detail=d)
    if kind == "xcfg":
        from . import C04

        _, key, cfg, scalar = item
        try:
            mesh, e, P, *_ = C04.build(cfg)
        except Exception:
            return dict(key=key, outcome="inapplicable", detail="")
        o, d = classify("expr", (e, P), scalar)
        return dict(key=key, outcome=o, detail=d)
    if kind in ("unsupported", "edge"):
        _, name, scalar = item
        table = dict(unsupported_alphabet() if kind == "unsupported" else edge_forms())
        try:
            k2, obj = table[name]()
        except Exception as e:
            return dict(key=name, outcome="rejected-by-ufl-at-construction", detail=f"{type(e).__name__}: {str(e)[:120]}")
        o, d = classify(k2, obj, scalar)
        return dict(key=name, outcome=o, detail=d)
    if kind == "pair":
        _, cell, la, lb, itype = item
        d = oracle.TDIM[cell]
        m = ufl.Mesh(basix.ufl.element("P", cell, 1, shape=(d,)))
        V = ufl.FunctionSpace(m, basix.ufl.element("P", cell, 1))
        f, v = ufl.Coefficient(V), ufl.TestFunction(V)

        def md(label):
            if label == "vertex":
                return {"quadrature_rule": "vertex", "quadrature_degree": 1}
            sch, q = label.split(":")
            return {"quadrature_rule": sch, "quadrature_degree": int(q)}
        M = ufl.dx if itype == "dx" else ufl.ds
        form = ufl.exp(f) * v * M(domain=m, metadata=md(la)) + ufl.sin(f) * v * M(domain=m, metadata=md(lb))
        o, dt = classify("form", form, "float64")
        return dict(key=f"pair:{cell}:{itype}:{la}+{lb}", outcome=o, detail=dt)
    raise KeyError(kind)


def main():
    chk = Check(PID)
    rej = load_rejections()
    items = []
    nodes, _ = audit.corpus(chk.thorough, extra_dims=("mesh2",))
    for k, cfg in nodes.items():
        items.append(("cfg", k, cfg, "float64"))
    for k, cfg in list(nodes.items())[::5]:
        items.append(("cfg", k + "[complex128]", cfg, "complex128"))
    from . import C04

    xn, _ = C04.explore(1)
    for k, cfg in xn.items():
        items.append(("xcfg", "expr:" + k, cfg, cfg["scalar"]))
    for name, _ in unsupported_alphabet():
        items.append(("unsupported", name, "float64"))
    for name, _ in edge_forms():
        items.append(("edge", name, name.split("@")[-1] if name.endswith(("float64", "complex128")) else "float64"))
    # (c) all pairs of rules per entity cell type: ids computed exhaustively here, compilation for colliding pairs + a covering sample
    pair_stats = {}
    for cell in ("interval", "triangle", "quadrilateral", "tetrahedron", "hexahedron", "prism"):
        rules = all_rules(cell)
        ids = {}
        for lab, p in rules:
            ids.setdefault(rule_id(p), []).append((lab, p))
        npairs = len(rules) * (len(rules) - 1) // 2
        coll = []
        for rid, group in ids.items():
            for (la, pa), (lb, pb) in itertools.combinations(group, 2):
                if pa.shape != pb.shape or not np.allclose(pa, pb):
                    coll.append((la, lb, rid))
        pair_stats[cell] = dict(rules=len(rules), pairs=npairs, colliding_pairs_of_distinct_rules=len(coll))
        for la, lb, rid in coll:
            chk.violation(f"{PID}:rule-id:{cell}:{la}+{lb}", f"quadrature rules {la} and {lb} on {cell} are different but share the id {rid} used in weights_/FE*_Q/sv_/sp_ names",
                          recipe=dict(kind="rule-id", cell=cell, a=la, b=lb))
            if cell != "prism" or True:
                items.append(("pair", cell, la, lb, "dx"))
        sample = [(rules[i][0], rules[(i * 7 + 3) % len(rules)][0]) for i in range(0, len(rules), 9 if not chk.thorough else 2)]
        for la, lb in sample:
            if la != lb:
                items.append(("pair", cell, la, lb, "dx"))
    tot = dict(items=len(items), accepted=0, rejected_legit=0, inapplicable=0, violating=0, by_kind={})
    samples = []
    new_rejections = []
    for it, r in pmap(work, items, desc="C19"):
        kind = it[0]
        bk = tot["by_kind"].setdefault(kind, dict(accepted=0, rejected=0, other=0))
        o = r["outcome"]
        if o == "inapplicable":
            tot["inapplicable"] += 1
            continue
        if o in ("invalid-c", "hang"):
            tot["violating"] += 1
            bk["other"] += 1
            chk.violation(f"{PID}:{r['key']}:{o}", f"{r['key']}: {'the C compiler was invoked and failed' if o == 'invalid-c' else 'compilation does not terminate'}: {r['detail']}",
                          recipe=dict(item=list(it)), observed=r)
            continue
        if kind == "unsupported":
            if o in ("rejected", "rejected-by-ufl-at-construction"):
                tot["rejected_legit"] += 1
                bk["rejected"] += 1
                if len(samples) < 8:
                    samples.append(dict(unsupported=r["key"], outcome=o, message=r["detail"][:100]))
            else:
                tot["violating"] += 1
                chk.violation(f"{PID}:{r['key']}:unsupported-construct-accepted", f"unsupported construct {r['key']} was compiled instead of being rejected with a Python exception",
                              recipe=dict(item=list(it)), observed=r)
            continue
        if o == "accepted":
            tot["accepted"] += 1
            bk["accepted"] += 1
        elif o.startswith("rejected"):
            bk["rejected"] += 1
            if legit(rej, r["key"], r["detail"]):
                tot["rejected_legit"] += 1
            else:
                tot["violating"] += 1
                new_rejections.append((r["key"], r["detail"]))
                chk.violation(f"{PID}:{r['key']}:supported-input-rejected", f"{r['key']} is in the supported fragment (no listed legitimate rejection matches) but FFCx raises: {r['detail'][:200]}",
                              recipe=dict(item=list(it)), observed=r)
    cov = dict(states=len(items), transitions=sum(v["pairs"] for v in pair_stats.values()), traces_validated_against_impl=tot["accepted"], evaluations=len(items),
               distinct_nontrivial=tot["accepted"], totals=tot, rule_pairs=pair_stats, unlisted_rejections=new_rejections[:30], samples=samples or [dict(note="none")], exhaustive=True,
               rule=("states = compile requests classified by observed outcome (form corpus, expression corpus, unsupported-construct alphabet, edge forms, rule pairs); transitions = "
                     "pairs of distinct quadrature rules per cell type whose ids were compared (complete: degrees 0..30 x {default, GLL, Gauss-Jacobi} + vertex)"))
    chk.finish(cov, assumptions=["'supported fragment' = the grammar of DESIGN §3 minus the legitimate rejections listed with reasons in mc/data/c19_rejections.json",
                                 "valid C = accepted by gcc -std=c17 -Werror=implicit-function-declaration through the real cffi build"])


def replay(path):
    doc = json.load(open(path))
    it = doc["recipe"].get("item")
    if not it:
        print(doc["what"])
        return 1
    r = work(tuple(it))
    print(r)
    return 0 if r["outcome"] in ("accepted", "inapplicable") else 1
