"""C20 - the command-line compiler emits a self-consistent header/source pair (DESIGN §4 C20).

Enumerated: all demo files of the repository plus generated UFL files (named / unnamed forms, expressions, elements, several
forms per file); per file `python -m ffcx` runs in a private working directory for each command-line variant (plain, -o, -n,
-o with -n, -d) -> the expected <stem>.h/<stem>.c exist; `gcc -std=c17 -c` stand-alone against ufcx.h; every `extern` of the header
is a defined symbol of the object (nm); every form_<prefix>_<name> / expression_<prefix>_<name> alias resolves; the object is
linked, opened through cffi ABI mode and every kernel is compared with the JIT path for the same objects (same inputs);
descriptor name maps vs the UFL file's names; the numba output is valid Python defining the same aliases.
Option precedence: for every option ALL 3^3 combinations of {absent, value1, value2} over {command line,
$PWD/ffcx_options.json, $XDG_CONFIG_HOME/ffcx/ffcx_options.json}, each in a fresh process; the effective value read from the
generated file must follow CLI > pwd > user > default.
"""

from __future__ import annotations

import ast
import itertools
import json
import os
import re
import shutil
import subprocess
import sys
import tempfile

import numpy as np

from ..runner import Check, pmap

PID = "C20"
PY = sys.executable
DEMO_DIR = os.path.join(os.environ.get("FFCX_REPO", "/repo"), "demo")

GENERATED = {
    "two_forms_named.py": '''
import basix.ufl
from ufl import *
e = basix.ufl.element("P", "triangle", 2)
m = Mesh(basix.ufl.element("P", "triangle", 1, shape=(2,)))
V = FunctionSpace(m, e)
u, v = TrialFunction(V), TestFunction(V)
g = Coefficient(V)
f = Coefficient(V)
k = Constant(m)
a = inner(grad(u), grad(v)) * dx + k * inner(u, v) * ds
L = inner(f, v) * dx + inner(g, v) * ds(1)
M = f * g * dx
forms = [a, L, M]
''',
    "derivative_drops_coefficient.py": '''
import basix.ufl
from ufl import *
m = Mesh(basix.ufl.element("P", "triangle", 1, shape=(2,)))
V = FunctionSpace(m, basix.ufl.element("P", "triangle", 1))
v, du = TestFunction(V), TrialFunction(V)
g = Coefficient(V)
u = Coefficient(V)
F = u**2 * v * dx - g * v * dx
J = derivative(F, u, du)
forms = [J, F]
''',
    "expressions_and_elements.py": '''
import basix.ufl
import numpy as np
from ufl import *
e = basix.ufl.element("P", "tetrahedron", 2)
ev = basix.ufl.element("N1curl", "tetrahedron", 1)
m = Mesh(basix.ufl.element("P", "tetrahedron", 1, shape=(3,)))
V = FunctionSpace(m, e)
f = Coefficient(V)
c = Constant(m)
gradf = grad(f)
scaled = c * f
points = np.array([[0.25, 0.25, 0.25], [0.1, 0.2, 0.3]])
expressions = [(gradf, points), (scaled, points)]
v = TestFunction(V)
L = f * v * dx
elements = [e, ev]
''',
    "unnamed_forms.py": '''
import basix.ufl
from ufl import *
m = Mesh(basix.ufl.element("P", "quadrilateral", 1, shape=(2,)))
V = FunctionSpace(m, basix.ufl.element("Q", "quadrilateral", 1))
u, v = TrialFunction(V), TestFunction(V)
forms = [inner(u, v) * dx, inner(grad(u), grad(v)) * dx + inner(u("+"), v("-")) * dS]
''',
    "prism_facets.py": '''
import basix.ufl
from ufl import *
m = Mesh(basix.ufl.element("P", "prism", 1, shape=(3,)))
V = FunctionSpace(m, basix.ufl.element("P", "prism", 1))
u, v = TrialFunction(V), TestFunction(V)
w = Coefficient(V)
a = w * inner(u, v) * ds + inner(u, v) * dx + inner(u, v) * ds(2)
L = w * v * dP
''',
}


def scratch():
    base = "/dev/shm" if os.path.isdir("/dev/shm") else None
    return tempfile.mkdtemp(prefix="cli_", dir=base)


def run_cli(args, cwd, env_extra=None, timeout=900):
    env = dict(os.environ)
    env["XDG_CONFIG_HOME"] = os.path.join(cwd, "_xdg")
    env["HOME"] = cwd
    if env_extra:
        env.update(env_extra)
    return subprocess.run([PY, "-m", "ffcx"] + list(args), cwd=cwd, capture_output=True, text=True, env=env, timeout=timeout)


_COMPARE = r'''
import sys, json, os, re
import numpy as np, cffi
import ufl
import ffcx.codegeneration.jit as jit
import ffcx.codegeneration
src_py, so_path, prefix, scalar = sys.argv[1:5]
ufd = ufl.algorithms.load_ufl_file(src_py)
ufcx_h = open(os.path.join(ffcx.codegeneration.get_include_path(), "ufcx.h")).read()
ffi = cffi.FFI()
decl = jit.UFC_HEADER_DECL.format(scalar) + jit.UFC_INTEGRAL_DECL + jit.UFC_FORM_DECL + jit.UFC_EXPRESSION_DECL
ffi.cdef(decl)
names = {id(v): k for k, v in ufd.object_names.items()} if False else ufd.object_names
out = {"forms": [], "expressions": [], "problems": []}
lib_aliases = []
form_alias = []
for i, form in enumerate(ufd.forms):
    nm = ufd.object_names.get(id(form), str(i))
    form_alias.append(f"form_{prefix}_{nm}")
expr_alias = []
for i, (e, p) in enumerate(ufd.expressions):
    nm = ufd.object_names.get(id(e), str(i))
    expr_alias.append(f"expression_{prefix}_{nm}")
ffi.cdef("\n".join(f"extern ufcx_form* {a};" for a in form_alias) + "\n" + "\n".join(f"extern ufcx_expression* {a};" for a in expr_alias))
lib = ffi.dlopen(so_path)
rng = np.random.default_rng(0)
ct = {"float64": "double", "float32": "float", "complex128": "double _Complex", "complex64": "float _Complex"}[scalar]
rt = "double" if scalar in ("float64", "complex128") else "float"
def call(kern, nA, nw, nc, nx, ent, perm, seed):
    r = np.random.default_rng(seed)
    dt = np.dtype(scalar); rdt = np.float64 if rt == "double" else np.float32
    A = np.zeros(nA + 8, dtype=dt); w = r.uniform(0.5, 1.5, nw + 8).astype(dt); c = r.uniform(0.5, 1.5, nc + 8).astype(dt)
    x = r.uniform(0.0, 1.0, nx + 8).astype(rdt)
    e = np.array(ent, dtype=np.intc); p = np.array(perm, dtype=np.uint8)
    getattr(kern, "tabulate_tensor_" + scalar)(ffi.cast(ct + "*", A.ctypes.data), ffi.cast(ct + "*", w.ctypes.data), ffi.cast(ct + "*", c.ctypes.data),
        ffi.cast(rt + "*", x.ctypes.data), ffi.cast("int*", e.ctypes.data), ffi.cast("uint8_t*", p.ctypes.data), ffi.NULL)
    return A
if ufd.forms:
    import tempfile, shutil
    cache = tempfile.mkdtemp(prefix="clij_", dir="/dev/shm" if os.path.isdir("/dev/shm") else None)
    try:
        jforms, jmod, _ = jit.compile_forms(list(ufd.forms), options={"scalar_type": scalar}, cache_dir=cache)
        for i, form in enumerate(ufd.forms):
            try:
                cf = getattr(lib, form_alias[i])
            except Exception as ex:
                out["problems"].append(f"alias {form_alias[i]} does not resolve: {ex}"); continue
            cf = cf[0]; jf = jforms[i]
            rec = {"alias": form_alias[i], "kernels": 0, "maxdev": 0.0}
            fields = {}
            for nm in ("rank", "num_coefficients", "num_constants"):
                fields[nm] = (getattr(cf, nm), getattr(jf, nm))
            offs_c = [cf.form_integral_offsets[k] for k in range(6)]; offs_j = [jf.form_integral_offsets[k] for k in range(6)]
            fields["offsets"] = (offs_c, offs_j)
            fields["ids"] = ([cf.form_integral_ids[k] for k in range(offs_c[-1])], [jf.form_integral_ids[k] for k in range(offs_j[-1])])
            fields["positions"] = ([cf.original_coefficient_positions[k] for k in range(cf.num_coefficients)], [jf.original_coefficient_positions[k] for k in range(jf.num_coefficients)])
            for nm, (a, b) in fields.items():
                if a != b:
                    out["problems"].append(f"{form_alias[i]}: descriptor field {nm}: command-line {a} vs JIT {b}")
            # names of coefficients / constants as in the UFL file
            coeffs = form.coefficients(); consts = form.constants()
            want_cn = [ufd.object_names.get(id(coeffs[cf.original_coefficient_positions[k]]), f"w{cf.original_coefficient_positions[k]}") for k in range(cf.num_coefficients)]
            got_cn = [ffi.string(cf.coefficient_name_map[k]).decode() for k in range(cf.num_coefficients)]
            if want_cn != got_cn:
                out["problems"].append(f"{form_alias[i]}: coefficient_name_map {got_cn} but the surviving coefficients are named {want_cn} in the UFL file")
            want_kn = [ufd.object_names.get(id(k_), f"c{j}") for j, k_ in enumerate(consts)]
            got_kn = [ffi.string(cf.constant_name_map[k]).decode() for k in range(cf.num_constants)]
            if want_kn != got_kn:
                out["problems"].append(f"{form_alias[i]}: constant_name_map {got_kn} vs UFL file names {want_kn}")
            # kernels: generous buffer sizes from the form
            nsc = 2
            ndofs = [a.ufl_function_space().ufl_element().dim for a in sorted(form.arguments(), key=lambda a: a.number())]
            nA = int(np.prod([d * nsc for d in ndofs])) if ndofs else 1
            nw = sum(c_.ufl_element().dim for c_ in coeffs) * nsc
            nc = sum(int(np.prod(k_.ufl_shape)) if k_.ufl_shape else 1 for k_ in consts)
            nx = max(d.ufl_coordinate_element().dim for d in form.ufl_domains()) * 3 * nsc
            for k in range(min(offs_c[-1], offs_j[-1])):
                t = max(tt for tt in range(5) if offs_c[tt] <= k)
                ent = (0, 1) if t in (1, 2) else (0, 0)
                if cf.form_integrals[k].domain != jf.form_integrals[k].domain:
                    out["problems"].append(f"{form_alias[i]} kernel {k}: cell-type tag differs"); continue
                A1 = call(cf.form_integrals[k], nA, nw, nc, nx, ent, (0, 1 if t == 2 else 0), 100 + k)
                A2 = call(jf.form_integrals[k], nA, nw, nc, nx, ent, (0, 1 if t == 2 else 0), 100 + k)
                fin = np.isfinite(A2)
                if not np.array_equal(np.isfinite(A1), fin):
                    out["problems"].append(f"{form_alias[i]} kernel {k}: NaN pattern differs between command-line and JIT kernel"); continue
                sc = max(float(np.max(np.abs(A2[fin]))) if fin.any() else 0.0, 1e-30)
                dev = float(np.max(np.abs(A1[fin] - A2[fin]))) / sc if fin.any() else 0.0
                rec["kernels"] += 1; rec["maxdev"] = max(rec["maxdev"], dev)
                if dev > (1e-11 if rt == "double" else 1e-4):
                    out["problems"].append(f"{form_alias[i]} kernel {k}: command-line kernel differs from the JIT kernel by {dev:.2e}")
            out["forms"].append(rec)
    finally:
        shutil.rmtree(cache, ignore_errors=True)
for i, (e, p) in enumerate(ufd.expressions):
    try:
        ce = getattr(lib, expr_alias[i])[0]
    except Exception as ex:
        out["problems"].append(f"alias {expr_alias[i]} does not resolve: {ex}"); continue
    if ce.num_points != len(p):
        out["problems"].append(f"{expr_alias[i]}: num_points {ce.num_points} != {len(p)}")
    out["expressions"].append({"alias": expr_alias[i], "num_points": ce.num_points, "rank": ce.rank})
print("COMPARE " + json.dumps(out))
'''


def check_file(item):
    """One UFL file through the command line: files, stand-alone build, symbols, aliases, kernels vs JIT."""
    name, text, variant = item
    res = dict(key=f"{name}[{variant}]", status="ok", failures=[], kernels=0, forms=0, expressions=0)
    d = scratch()
    try:
        src = os.path.join(d, name)
        if text is None:
            shutil.copy(os.path.join(DEMO_DIR, name), src)
        else:
            open(src, "w").write(text)
        stem = name[:-3]
        prefix = re.sub(r"_+", "_", re.sub(r"[^A-Za-z0-9_]", "_", stem))
        args, out_stem, out_dir = [name], prefix, d
        if variant == "-o":
            args, out_stem = ["-o", "outname", "-i", name], "outname"
        elif variant == "-n":
            args, prefix = ["-n", "myns", "-i", name], "myns"
        elif variant == "-o-n":
            args, out_stem, prefix = ["-o", "outname", "-n", "myns", "-i", name], "outname", "myns"
        elif variant == "-d":
            os.mkdir(os.path.join(d, "sub"))
            args, out_dir = ["-d", "sub", name], os.path.join(d, "sub")
        scalar = "float64"
        head = open(src).read()
        if "Complex" in name or "complex" in head.lower() and "scalar_type" not in head:
            scalar = "complex128"
            args = ["--scalar_type", "complex128"] + args
        r = run_cli(args, d)
        if r.returncode != 0:
            res["status"] = "rejected"
            res["why"] = (r.stderr or r.stdout)[-300:]
            return res
        h, c = os.path.join(out_dir, out_stem + ".h"), os.path.join(out_dir, out_stem + ".c")
        if not (os.path.exists(h) and os.path.exists(c)):
            res["failures"].append(dict(kind="files", text=f"`ffcx {' '.join(args)}` should write {out_stem}.h and {out_stem}.c into {os.path.relpath(out_dir, d)}/ but the directory holds "
                                        f"{sorted(f for f in os.listdir(out_dir) if f.endswith(('.h', '.c')))}"))
            res["status"] = "violation"
            return res
        import ffcx.codegeneration

        inc = ffcx.codegeneration.get_include_path()
        obj = os.path.join(d, "x.o")
        r = subprocess.run(["gcc", "-std=c17", "-fPIC", "-Werror=implicit-function-declaration", "-I", inc, "-I", out_dir, "-c", c, "-o", obj], capture_output=True, text=True)
        if r.returncode:
            res["failures"].append(dict(kind="standalone-compile", text=f"{out_stem}.c does not compile stand-alone: {[l for l in r.stderr.splitlines() if 'error' in l][:2]}"))
            res["status"] = "violation"
            return res
        # header compiles on its own and every extern is defined
        hdr = open(h).read()
        externs = re.findall(r"extern\s+ufcx_\w+\s*\*?\s*(\w+)\s*;", hdr)
        nm = subprocess.run(["nm", "--defined-only", obj], capture_output=True, text=True).stdout
        defined = {l.split()[-1] for l in nm.splitlines() if l.split()}
        missing = [e for e in externs if e not in defined]
        if missing:
            res["failures"].append(dict(kind="undefined-extern", text=f"declared in {out_stem}.h but not defined in {out_stem}.c: {missing[:4]}"))
        so = os.path.join(d, "libx.so")
        r = subprocess.run(["gcc", "-shared", obj, "-lm", "-o", so], capture_output=True, text=True)
        if r.returncode:
            res["failures"].append(dict(kind="link", text=f"link fails: {r.stderr[-200:]}"))
            res["status"] = "violation"
            return res
        r = subprocess.run([PY, "-c", _COMPARE, src, so, prefix, scalar], capture_output=True, text=True, cwd=d, timeout=1800)
        line = [l for l in r.stdout.splitlines() if l.startswith("COMPARE ")]
        if not line:
            res["failures"].append(dict(kind="harness-or-load", text=f"comparison script failed: {(r.stderr or r.stdout)[-300:]}"))
        else:
            cmpres = json.loads(line[-1][8:])
            res["forms"], res["expressions"] = len(cmpres["forms"]), len(cmpres["expressions"])
            res["kernels"] = sum(f["kernels"] for f in cmpres["forms"])
            for p in cmpres["problems"][:4]:
                res["failures"].append(dict(kind="cli-vs-jit", text=p))
        # numba output: valid Python, same aliases
        if variant == "plain":
            r = run_cli(["--language", "numba"] + ([] if scalar == "float64" else ["--scalar_type", scalar]) + [name], d)
            py = os.path.join(d, prefix + "_numba.py")
            if r.returncode == 0 and os.path.exists(py):
                try:
                    tree = ast.parse(open(py).read())
                    names = {t.id for n in ast.walk(tree) if isinstance(n, ast.Assign) for t in n.targets if isinstance(t, ast.Name)}
                    aliases = re.findall(r"\b((?:form|expression)_" + re.escape(prefix) + r"_\w+)\s*;", hdr)
                    miss = [a for a in aliases if a not in names]
                    if miss:
                        res["failures"].append(dict(kind="numba-aliases", text=f"numba module lacks the aliases {miss[:3]}"))
                except SyntaxError as e:
                    res["failures"].append(dict(kind="numba-invalid-python", text=f"{prefix}_numba.py is not valid Python: {e.msg} (line {e.lineno})"))
            elif r.returncode != 0:
                res["numba_rejected"] = (r.stderr or r.stdout)[-200:]
        if res["failures"]:
            res["status"] = "violation"
        return res
    finally:
        shutil.rmtree(d, ignore_errors=True)


# ---------------------------------------------------------------------------------------------------
OPTION_VALUES = {
    "scalar_type": ("float32", "complex64"),
    "table_rtol": (1e-4, 1e-3),
    "table_atol": (1e-8, 1e-7),
    "epsilon": (1e-12, 1e-10),
    "verbosity": (10, 20),
    "part": ("diagonal", "full"),
    "sum_factorization": (True, False),
}
_OPT_FILE = '''
import basix
import basix.ufl
from ufl import *
def tp(deg):
    return basix.ufl.wrap_element(basix.create_tp_element(basix.ElementFamily.P, basix.CellType.quadrilateral, deg, basix.LagrangeVariant.gll_warped))
m = Mesh(basix.ufl.blocked_element(tp(1), shape=(2,)))
V = FunctionSpace(m, tp(2))
u, v = TrialFunction(V), TestFunction(V)
a = inner(u, v) * dx
'''


def effective_value(text, opt):
    m = re.search(r"//\s*'?" + re.escape(opt) + r"'?\s*[:=]\s*([^\n,]+)", text)
    if not m:
        m = re.search(r"['\"]" + re.escape(opt) + r"['\"]\s*:\s*([^,\n}]+)", text)
    return m.group(1).strip().strip("',\"") if m else None


def precedence_case(item):
    opt, cli, pwd, usr = item
    d = scratch()
    try:
        open(os.path.join(d, "opt.py"), "w").write(_OPT_FILE)
        if pwd is not None:
            json.dump({opt: pwd}, open(os.path.join(d, "ffcx_options.json"), "w"))
        if usr is not None:
            os.makedirs(os.path.join(d, "_xdg", "ffcx"))
            json.dump({opt: usr}, open(os.path.join(d, "_xdg", "ffcx", "ffcx_options.json"), "w"))
        args = []
        if cli is not None:
            if isinstance(cli, bool):
                if cli:
                    args = [f"--{opt}"]
                else:
                    return dict(item=list(item), skipped="a boolean option cannot be switched off on the command line")
            else:
                args = [f"--{opt}", str(cli)]
        r = run_cli(args + ["opt.py"], d)
        if r.returncode:
            return dict(item=list(item), error=(r.stderr or r.stdout)[-300:])
        text = open(os.path.join(d, "opt.c")).read()
        return dict(item=list(item), effective=effective_value(text[:3000], opt), header=text[:1200])
    finally:
        shutil.rmtree(d, ignore_errors=True)


# ---------------------------------------------------------------------------------------------------
# sequences of command-line invocations inside ONE interpreter (ffcx.main.main called repeatedly, as build systems and test drivers do):
# every invocation must write exactly what it writes when it is the only one of its process
SEQ_FILES = {
    "seqa.py": "import basix.ufl\nfrom ufl import *\nm = Mesh(basix.ufl.element('P', 'triangle', 1, shape=(2,)))\nV = FunctionSpace(m, basix.ufl.element('P', 'triangle', 1))\n"
               "u, v = TrialFunction(V), TestFunction(V)\na = inner(u, v) * dx\n",
    "seqb.py": "import basix.ufl\nfrom ufl import *\nm = Mesh(basix.ufl.element('P', 'triangle', 1, shape=(2,)))\nV = FunctionSpace(m, basix.ufl.element('P', 'triangle', 2))\n"
               "u, v = TrialFunction(V), TestFunction(V)\nf = Coefficient(V)\na = f * inner(grad(u), grad(v)) * dx\nL = f * v * ds\n",
}
SEQ_INVOCATIONS = {
    "A": ["seqa.py"], "B": ["seqb.py"], "Ao": ["-o", "outx", "-i", "seqa.py"], "Bn": ["-n", "nsy", "-i", "seqb.py"],
    "Anumba": ["--language", "numba", "seqa.py"], "Bf32": ["--scalar_type", "float32", "seqb.py"], "AB": ["seqa.py", "seqb.py"],
}
_SEQ_CHILD = r"""
import sys, json, os, hashlib
import ffcx.main
for args in json.loads(sys.argv[1]):
    rc = ffcx.main.main(list(args))
    if rc not in (0, None):
        print("SEQ-RESULT " + json.dumps({"error": "main returned %r for %r" % (rc, args)})); sys.exit(0)
out = {}
for f in sorted(os.listdir(".")):
    if f.endswith((".h", ".c")) or f.endswith("_numba.py"):
        out[f] = hashlib.sha1(open(f, "rb").read()).hexdigest()
print("SEQ-RESULT " + json.dumps(out))
"""


def _seq_run(arglists):
    d = scratch()
    try:
        for f, t in SEQ_FILES.items():
            open(os.path.join(d, f), "w").write(t)
        env = dict(os.environ, XDG_CONFIG_HOME=os.path.join(d, "_xdg"), HOME=d)
        r = subprocess.run([PY, "-c", _SEQ_CHILD, json.dumps(arglists)], cwd=d, capture_output=True, text=True, env=env, timeout=900)
        line = [l for l in r.stdout.splitlines() if l.startswith("SEQ-RESULT ")]
        if not line:
            return dict(error=(r.stderr or r.stdout)[-400:])
        return json.loads(line[-1][len("SEQ-RESULT "):])
    finally:
        shutil.rmtree(d, ignore_errors=True)


_ALONE = {}  # invocation name -> files written when it is the only invocation of its process (filled before the pool forks)


def _seq_single(name):
    return _seq_run([SEQ_INVOCATIONS[name]])


def sequence_case(item):
    names = list(item)
    alone = {n: (_ALONE[n] if n in _ALONE else _seq_run([SEQ_INVOCATIONS[n]])) for n in dict.fromkeys(names)}
    got = _seq_run([SEQ_INVOCATIONS[n] for n in names])
    want = {}
    for n in names:
        if "error" in alone[n]:
            return dict(item=names, skipped=f"invocation {n} fails on its own: {alone[n]['error'][-160:]}")
        want.update(alone[n])
    return dict(item=names, got=got, want=want)


def same_value(a, b):
    if a is None:
        return False
    try:
        if isinstance(b, bool):
            return str(a) in (str(b), str(b).lower())
        if isinstance(b, (int, float)):
            return abs(float(a) - float(b)) <= 1e-12 * max(1.0, abs(float(b)))
    except ValueError:
        return False
    return str(a) == str(b) or str(a) == f"<class 'numpy.{b}'>" or str(b) in str(a)


def _dispatch(item):
    if item[0] == "file":
        return dict(kind="file", r=check_file(item[1:]))
    if item[0] == "seq":
        return dict(kind="seq", r=sequence_case(item[1:]))
    return dict(kind="prec", r=precedence_case(item[1:]))


def main():
    chk = Check(PID)
    import ffcx.options

    items = []
    demos = sorted(f for f in os.listdir(DEMO_DIR) if f.endswith(".py") and not f.startswith("test_"))
    for f in demos:
        items.append(("file", f, None, "plain"))
    for f, text in GENERATED.items():
        for variant in ("plain", "-o", "-n", "-o-n", "-d"):
            items.append(("file", f, text, variant))
    if chk.thorough:
        for f in demos[::3]:
            for variant in ("-o", "-n", "-o-n", "-d"):
                items.append(("file", f, None, variant))
    defaults = {k: v[1] for k, v in ffcx.options.FFCX_DEFAULT_OPTIONS.items()}
    for opt, (v1, v2) in OPTION_VALUES.items():
        for cli, pwd, usr in itertools.product((None, v1, v2), repeat=3):
            items.append(("prec", opt, cli, pwd, usr))
    # all sequences of <= 2 (quick) / <= 3 (thorough) invocations of ffcx.main.main inside one interpreter
    for n, r in pmap(_seq_single, sorted(SEQ_INVOCATIONS), desc="C20 single invocations"):
        _ALONE[n] = r
    for n in range(2, (3 if chk.thorough else 2) + 1):
        for seq in itertools.product(sorted(SEQ_INVOCATIONS), repeat=n):
            items.append(("seq",) + tuple(seq))
    tot = dict(files=0, files_ok=0, rejected=0, kernels_compared=0, precedence_cases=0, precedence_skipped=0, forms=0, expressions=0, invocation_sequences=0)
    samples, rejected = [], []
    for it, r in pmap(_dispatch, items, desc="C20"):
        if r["kind"] == "file":
            fr = r["r"]
            tot["files"] += 1
            tot["kernels_compared"] += fr["kernels"]
            tot["forms"] += fr["forms"]
            tot["expressions"] += fr["expressions"]
            if fr["status"] == "ok":
                tot["files_ok"] += 1
                if len(samples) < 5:
                    samples.append(dict(file=fr["key"], forms=fr["forms"], expressions=fr["expressions"], kernels_compared_with_jit=fr["kernels"]))
            elif fr["status"] == "rejected":
                tot["rejected"] += 1
                rejected.append((fr["key"], fr.get("why", "")[-160:]))
            else:
                f = fr["failures"][0]
                chk.violation(f"{PID}:{fr['key']}:{f['kind']}", f"{fr['key']}: {f['text']}", recipe=dict(kind="file", item=[it[1], it[2], it[3]]), observed=fr["failures"][:4])
        elif r["kind"] == "seq":
            sr = r["r"]
            if "skipped" in sr:
                continue
            tot["invocation_sequences"] += 1
            key = "+".join(sr["item"])
            if "error" in sr["got"]:
                chk.violation(f"{PID}:sequence:{key}:raises", f"ffcx.main.main called for {sr['item']} in one interpreter fails: {sr['got']['error'][-200:]}", recipe=dict(kind="seq", item=sr["item"]))
            elif sr["got"] != sr["want"]:
                missing = sorted(set(sr["want"]) - set(sr["got"]))
                extra = sorted(set(sr["got"]) - set(sr["want"]))
                differ = sorted(f for f in sr["want"] if f in sr["got"] and sr["got"][f] != sr["want"][f])
                chk.violation(f"{PID}:sequence:{key}", f"invocations {sr['item']} of ffcx.main.main in one interpreter do not write what each writes on its own: missing files {missing}, "
                              f"unexpected files {extra}, files with other content {differ}", recipe=dict(kind="seq", item=sr["item"]), observed=dict(got=sr["got"], want=sr["want"]))
        else:
            pr = r["r"]
            opt, cli, pwd, usr = pr["item"]
            if "skipped" in pr:
                tot["precedence_skipped"] += 1
                continue
            tot["precedence_cases"] += 1
            want = cli if cli is not None else pwd if pwd is not None else usr if usr is not None else defaults[opt]
            src = "command line" if cli is not None else "$PWD/ffcx_options.json" if pwd is not None else "user ffcx_options.json" if usr is not None else "default"
            if "error" in pr:
                chk.violation(f"{PID}:precedence:{opt}:cli={cli},pwd={pwd},user={usr}:raises", f"option {opt} with cli={cli}, pwd json={pwd}, user json={usr}: ffcx fails: {pr['error'][-200:]}",
                              recipe=dict(kind="prec", item=pr["item"]))
            elif not same_value(pr["effective"], want):
                chk.violation(f"{PID}:precedence:{opt}:cli={cli},pwd={pwd},user={usr}", f"option {opt}: command line={cli}, $PWD json={pwd}, user json={usr}: effective value is {pr['effective']!r}, "
                              f"expected {want!r} (from {src}; precedence CLI > pwd > user > default)", recipe=dict(kind="prec", item=pr["item"]), observed=dict(header=pr.get("header", "")[:600]))
    cov = dict(states=tot["files"] + tot["precedence_cases"] + tot["invocation_sequences"], transitions=tot["kernels_compared"] + tot["precedence_cases"] + tot["invocation_sequences"], traces_validated_against_impl=tot["files_ok"],
               evaluations=tot["files"] + tot["precedence_cases"], distinct_nontrivial=tot["files_ok"], totals=tot, rejected_files=rejected[:20], samples=samples or [dict(note="none")], exhaustive=True,
               rule=("every demo file + 5 generated files x command-line variants: files written, stand-alone gcc -std=c17, nm symbols vs header externs, aliases via cffi ABI mode, every kernel vs the JIT kernel, "
                     "name maps vs the UFL file, numba output parses; all 27 source combinations {absent, v1, v2}^3 for each of 7 options in fresh processes"))
    chk.finish(cov, assumptions=["the effective option value is read from the option dump in the generated file", "kernels are compared with the JIT path on random data with generous buffer sizes (no reference model here)"])


def replay(path):
    doc = json.load(open(path))
    rec = doc["recipe"]
    if rec["kind"] == "file":
        r = check_file(tuple(rec["item"]))
        print(r["status"], r.get("why", ""))
        for f in r["failures"]:
            print("  ", f["text"])
        return 1 if r["status"] == "violation" else 0
    if rec["kind"] == "seq":
        r = sequence_case(tuple(rec["item"]))
        print(r)
        return 0 if ("skipped" in r or r["got"] == r["want"]) else 1
    r = precedence_case(tuple(rec["item"]))
    print({k: v for k, v in r.items() if k != "header"})
    return 1
