"""C16 - formatted source means exactly what the code-generation AST says (DESIGN §4 C16).

Enumerated: ALL expression trees of depth <= 2 over all node kinds (literals +-float/+-int/complex, Symbol, ArrayAccess,
Neg, Not, the 4 arithmetic and 8 comparison/logic binary operators, n-ary Sum/Product of 1-3 operands, Conditional,
MathFunction with 1 and 2 arguments) in every operand position, plus all depth-3 chains (parent, side, child, side,
grandchild); all statement kinds (nested loops, array declarations of rank 1-4 with initialisers, sections, assignments);
the captured kernel ASTs of a corpus.  Oracle: format -> parse (pycparser for C, Python's ast for numba) -> normal form ==
normal form of the L tree; text that does not parse is a violation.  Literals: a grid of doubles (1 + k ulp, neighbourhoods
of powers of two and ten, subnormals, table values of the corpus) must read back within one unit in the last place.
"""

from __future__ import annotations

import itertools
import json
import math
import re

import numpy as np

from .. import audit, cparse, forms, lvm
from ..runner import Check, pmap

PID = "C16"


def node_sets(L):
    x, y, z = L.Symbol("x", L.DataType.SCALAR), L.Symbol("y", L.DataType.SCALAR), L.Symbol("z", L.DataType.REAL)
    i, j = L.Symbol("i", L.DataType.INT), L.Symbol("j", L.DataType.INT)
    arr = L.Symbol("a", L.DataType.SCALAR)
    leaves = [
        ("x", x), ("f+", L.LiteralFloat(2.5)), ("f-", L.LiteralFloat(-2.5)), ("i+", L.LiteralInt(3)), ("i-", L.LiteralInt(-3)),
        ("a[i][j]", L.ArrayAccess(arr, (i, j))), ("f0", L.LiteralFloat(0.0)), ("f-0", L.LiteralFloat(-0.0)), ("cplx", L.LiteralFloat(1.5 - 2.0j)), ("cplx-", L.LiteralFloat(-0.0 + 3.0j)),
    ]
    unary = [("Neg", lambda a: L.Neg(a)), ("Not", lambda a: L.Not(a))]
    binary = [(c.__name__, c) for c in (L.Add, L.Sub, L.Mul, L.Div, L.EQ, L.NE, L.LT, L.GT, L.LE, L.GE, L.And, L.Or)]
    return dict(x=x, y=y, z=z, i=i, j=j, arr=arr, leaves=leaves, unary=unary, binary=binary)


def constructors(L, S):
    """(name, arity, build(children...)) for every operator kind; children fill operand positions."""
    x, y = S["x"], S["y"]
    out = []
    for nm, f in S["unary"]:
        out.append((nm, 1, f))
    for nm, c in S["binary"]:
        out.append((nm, 2, lambda a, b, c=c: c(a, b)))
    # one-operand n-ary nodes (a rank-1 MultiIndex flattens to Sum([i]); licm leaves Product([t])): a transparent wrapper of MUL/ADD precedence
    out.append(("Sum1", 1, lambda a: L.Sum([a])))
    out.append(("Product1", 1, lambda a: L.Product([a])))
    out.append(("Sum2", 2, lambda a, b: L.Sum([a, b])))
    out.append(("Sum3", 3, lambda a, b, c: L.Sum([a, b, c])))
    out.append(("Product2", 2, lambda a, b: L.Product([a, b])))
    out.append(("Product3", 3, lambda a, b, c: L.Product([a, b, c])))
    out.append(("Conditional", 3, lambda a, b, c: L.Conditional(a, b, c)))
    out.append(("sqrt", 1, lambda a: L.MathFunction("sqrt", [a])))
    out.append(("power", 2, lambda a, b: L.MathFunction("power", [a, b])))
    out.append(("index", 2, lambda a, b: L.ArrayAccess(S["arr"], (a, b))))
    return out


def enumerate_trees(L, chains=True):
    S = node_sets(L)
    cons = constructors(L, S)
    leaves = S["leaves"]
    x = S["x"]
    trees = []  # (description, node)
    # depth 0 and 1: every constructor with every tuple of leaves
    for nm, lf in leaves:
        trees.append((nm, lf))
    depth1 = []
    for cn, ar, build in cons:
        for combo in itertools.product(leaves, repeat=ar):
            try:
                n = build(*[c[1] for c in combo])
            except Exception:
                continue
            d = f"{cn}({','.join(c[0] for c in combo)})"
            depth1.append((d, n))
    trees += depth1
    # depth 2: every constructor, one operand position holding every depth-1 tree, the others the symbol x (and a literal for variety)
    d1core = depth1
    for cn, ar, build in cons:
        for pos in range(ar):
            for d, child in d1core:
                ops = [x] * ar
                ops[pos] = child
                try:
                    n = build(*ops)
                except Exception:
                    continue
                trees.append((f"{cn}@{pos}[{d}]", n))
    if not chains:
        return trees
    # depth-3 chains: (parent, side, child, side, grandchild) with grandchild = every depth-1 tree built on x,y only
    y = S["y"]
    simple = []
    for cn, ar, build in cons:
        try:
            simple.append((cn, build(*([x, y, x][:ar]))))
        except Exception:
            pass
    for (pn, par, pbuild), (cn2, car, cbuild) in itertools.product(cons, cons):
        for ppos in range(par):
            for cpos in range(car):
                for gd, g in simple:
                    cops = [x] * car
                    cops[cpos] = g
                    try:
                        child = cbuild(*cops)
                        pops = [y] * par
                        pops[ppos] = child
                        n = pbuild(*pops)
                    except Exception:
                        continue
                    trees.append((f"{pn}@{ppos}[{cn2}@{cpos}[{gd}]]", n))
    return trees


def c_call_names(dtype):
    from ffcx.codegeneration.C.formatter import math_table

    def f(name):
        # the formatter picks the table from the dtype of the first argument: any table's entry (or the bare name) is a faithful spelling here
        return {t.get(name, name) for t in math_table.values()} | {name}

    return f


def check_expressions(language, dtype, part, nparts, chains=True):
    """Worker: the `part`-th slice of all trees for one formatter. Returns (count, failures)."""
    import ffcx.codegeneration.lnodes as L

    if language == "C":
        from ffcx.codegeneration.C.formatter import Formatter
    else:
        from ffcx.codegeneration.numba.formatter import Formatter
    fmt = Formatter(dtype)
    trees = enumerate_trees(L, chains)
    mine = trees[part::nparts]
    texts = []
    fails = []
    for d, n in mine:
        try:
            texts.append(fmt(n))
        except Exception as e:  # noqa: BLE001
            texts.append(None)
            fails.append((d, f"formatter raises {type(e).__name__}: {str(e)[:80]}", ""))
    if language == "C":
        idx = [k for k, t in enumerate(texts) if t is not None]
        parsed = cparse.parse_c_exprs([texts[k] for k in idx])
        got = dict(zip(idx, parsed))
    else:
        got = {k: cparse.parse_py_expr(t) for k, t in enumerate(texts) if t is not None}
    names = c_call_names(np.dtype(dtype).name) if language == "C" else None
    for k, (d, n) in enumerate(mine):
        if texts[k] is None:
            continue
        want = cparse.norm_l(n, L, language)
        g = got[k]
        if language != "C":
            want = cparse.fold_complex(want)
            g = cparse.fold_complex(g) if not isinstance(g, Exception) else g
        r = cparse.compare(want, g, names if language == "C" else None)
        if r:
            fails.append((d, r, texts[k]))
    return len(mine), fails, len(trees)


def literal_grid():
    vals = set()
    for k in list(range(0, 65)) + [2 ** p for p in range(7, 13)]:
        vals.add(1.0 + k * math.ulp(1.0))
        vals.add(2.0 - k * math.ulp(1.0))
    for p in range(-30, 31, 3):
        for k in (-2, -1, 0, 1, 2):
            b = 2.0 ** p
            vals.add(b + k * math.ulp(b))
    for p in range(-20, 21):
        b = 10.0 ** p
        for k in (-1, 0, 1):
            vals.add(b + k * math.ulp(b))
    vals |= {5e-324, 2.2250738585072014e-308, 1.7976931348623157e308, 1e-9, 1e-6, 1.0 / 3.0, 2.0 / 3.0, 0.1, 0.2, 0.7, math.pi, math.e, 1e-14, 0.5773502691896257, 0.7886751345948129,
             0.2113248654051871, 0.16666666666666666, 1.0000000000000002, 0.9999999999999999, 1.1102230246251565e-16}
    rng = np.random.default_rng(12345)
    vals |= set(rng.uniform(1.0, 2.0, 3000).tolist()) | set(rng.uniform(0.0, 1.0, 2000).tolist()) | set((10.0 ** rng.uniform(-12, 12, 2000)).tolist())
    out = sorted(vals)
    return out + [-v for v in out[::7]]


def check_literals(language, dtype, extra=()):
    import ffcx.codegeneration.lnodes as L

    if language == "C":
        from ffcx.codegeneration.C.formatter import Formatter
    else:
        from ffcx.codegeneration.numba.formatter import Formatter
    fmt = Formatter(dtype)
    vals = literal_grid() + list(extra)
    worst, bad = 0.0, []
    texts = [fmt(L.LiteralFloat(v)) for v in vals]
    # also through array initialisers (tables are printed by the same number formatter)
    for v, t in zip(vals, texts):
        try:
            back = float(t.replace("(", "").replace(")", ""))
        except ValueError:
            bad.append((v, t, "does not read as a number"))
            continue
        if re.fullmatch(r"\(?[-+]?\d+\)?", t):
            bad.append((v, t, "an integer constant (integer arithmetic in the emitted expression), not a floating literal"))
            continue
        u = cparse.ulps(v, back)
        worst = max(worst, u)
        if u > 1.0:
            bad.append((v, t, f"{u:.2f} ulp"))
    return len(vals), worst, bad


_NUM = re.compile(r"[-+]?(?:\d+\.?\d*(?:[eE][-+]?\d+)?|\.\d+(?:[eE][-+]?\d+)?|inf|nan)")


def check_initialiser_literals(language, dtype, np_dtype):
    """The literal grid printed through an ArrayDecl initialiser (the path every table takes), stored as `np_dtype` values.

    Each number of the emitted initialiser list must read back within one unit in the last place of the stored type."""
    import ffcx.codegeneration.lnodes as L

    if language == "C":
        from ffcx.codegeneration.C.formatter import Formatter
    else:
        from ffcx.codegeneration.numba.formatter import Formatter
    fmt = Formatter(dtype)
    with np.errstate(over="ignore", under="ignore"):
        vals = np.asarray(literal_grid(), dtype=np_dtype)
    vals = vals[np.isfinite(vals)]
    bad, worst, n = [], 0.0, 0
    for shape in ((-1,), (-1, 7), (-1, 2, 7)):
        m = (vals.size // 14) * 14
        arr = vals[:m].reshape(shape)
        text = fmt(L.ArrayDecl(L.Symbol("T", L.DataType.REAL), values=arr, const=True))
        body = text[text.index("{") if language == "C" else text.index("np.array(") + 9:]
        if language != "C":
            body = body[:body.rindex(", dtype=")]
        toks = _NUM.findall(re.sub(r"[\[\]{}\s;]", " ", body).replace(",", " "))
        flat = arr.reshape(-1)
        if len(toks) != flat.size:
            bad.append((float(flat[0]), text[:80], f"initialiser of shape {arr.shape} has {len(toks)} numbers instead of {flat.size}"))
            continue
        for v, t in zip(flat, toks):
            n += 1
            back = float(t)
            av = np.abs(v)
            with np.errstate(over="ignore"):
                unit = float(np.spacing(av))  # = math.ulp for doubles, as in cparse.ulps
            if not math.isfinite(unit):
                unit = float(av) - float(np.nextafter(av, np_dtype(0)))
            u = abs(back - float(v)) / unit
            worst = max(worst, u)
            if u > 1.0:
                bad.append((float(v), t, f"{u:.2f} ulp of {np.dtype(np_dtype).name}"))
    return n, worst, bad


# ---------------------------------------------------------------------------------------------------
# statements and whole kernels
# ---------------------------------------------------------------------------------------------------
def norm_l_stmts(node, L, out):
    if isinstance(node, L.StatementList):
        for s in node.statements:
            norm_l_stmts(s, L, out)
    elif isinstance(node, L.Section):
        for d in node.declarations:
            norm_l_stmts(d, L, out)
        if node.statements:
            inner = []
            for s in node.statements:
                norm_l_stmts(s, L, inner)
            out.append(("block", tuple(inner)))
    elif isinstance(node, L.Comment):
        pass
    elif isinstance(node, L.ArrayDecl):
        init = None
        if node.values is not None:
            v = np.asarray(node.values)

            def nest(a):
                if a.ndim == 0:
                    return ("init", (cparse.lit(a.item()),))
                if a.ndim == 1:
                    return ("init", tuple(cparse.lit(t.item()) for t in a))
                return ("init", tuple(nest(t) for t in a))
            init = nest(v)
        quals = ("const", "static") if node.const else ()
        out.append(("decl", node.symbol.name, tuple(("lit", int(s)) for s in node.sizes), init, quals))
    elif isinstance(node, L.VariableDecl):
        out.append(("decl", node.symbol.name, (), cparse.norm_l(node.value, L) if node.value is not None else None, ()))
    elif isinstance(node, L.ForRange):
        body = []
        norm_l_stmts(node.body, L, body)
        out.append(("for", node.index.name, cparse.norm_l(node.begin, L), cparse.norm_l(node.end, L), ("block", tuple(body))))
    elif isinstance(node, L.Statement):
        out.append(cparse.norm_l(node.expr, L))
    else:
        raise NotImplementedError(type(node).__name__)


def strip_comments(text):
    # comments out; stdbool's bool is a macro for _Bool (pycparser has no headers)
    return re.sub(r"\bbool\b", "_Bool", re.sub(r"//[^\n]*", "", text))


def compare_stmt(want, got, names):
    if want[0] != got[0]:
        return f"statement {got[0]} where {want[0]} expected"
    if want[0] == "decl":
        if want[1] != got[1]:
            return f"declares {got[1]} where {want[1]} expected"
        if tuple(want[2]) != tuple(got[2]):
            return f"{want[1]}: dimensions {got[2]} != {want[2]}"
        if set(want[4]) - set(got[4]):
            return f"{want[1]}: qualifiers {got[4]} lack {want[4]}"
        if (want[3] is None) != (got[3] is None):
            return f"{want[1]}: initialiser presence differs"
        if want[3] is not None:
            return compare_init(want[3], got[3], names, want[1])
        return None
    if want[0] == "for":
        if want[1] != got[1]:
            return f"loop variable {got[1]} != {want[1]}"
        for a, b, what in ((want[2], got[2], "begin"), (want[3], got[3], "end")):
            r = cparse.compare(a, b, names)
            if r:
                return f"loop {what}: {r}"
        return compare_stmt(want[4], got[4], names)
    if want[0] == "block":
        if len(want[1]) != len(got[1]):
            return f"block with {len(got[1])} statements where {len(want[1])} expected"
        for a, b in zip(want[1], got[1]):
            r = compare_stmt(a, b, names)
            if r:
                return r
        return None
    return cparse.compare(want, got, names)


def compare_init(want, got, names, name):
    if want[0] == "init" and got[0] == "init":
        if len(want[1]) != len(got[1]):
            return f"{name}: initialiser list of {len(got[1])} entries where {len(want[1])} expected"
        for a, b in zip(want[1], got[1]):
            r = compare_init(a, b, names, name)
            if r:
                return r
        return None
    if want[0] == "init" or got[0] == "init":
        return f"{name}: initialiser nesting differs"
    r = cparse.compare(want, got, names)
    return f"{name}: {r}" if r else None


def statement_cases(L):
    i, j, k = (L.Symbol(n, L.DataType.INT) for n in "ijk")
    A = L.Symbol("A", L.DataType.SCALAR)
    t = L.Symbol("t0", L.DataType.SCALAR)
    w = L.Symbol("w", L.DataType.SCALAR)
    T1 = L.Symbol("T1", L.DataType.REAL)
    T4 = L.Symbol("T4", L.DataType.REAL)
    cases = []
    rng = np.random.default_rng(3)
    for rank in (1, 2, 3, 4):
        shape = (2, 3, 2, 2)[:rank]
        cases.append((f"ArrayDecl const rank{rank}", L.ArrayDecl(L.Symbol(f"T{rank}", L.DataType.REAL), sizes=shape, values=rng.uniform(-1, 1, shape), const=True)))
        cases.append((f"ArrayDecl rank{rank} uninitialised", L.ArrayDecl(L.Symbol(f"U{rank}", L.DataType.SCALAR), sizes=shape)))
    cases.append(("ArrayDecl {0}", L.ArrayDecl(L.Symbol("tmp", L.DataType.SCALAR), sizes=(6,), values=np.array([0.0]))))
    cases.append(("ArrayDecl int table", L.ArrayDecl(L.Symbol("perm", L.DataType.INT), sizes=(2, 3), values=np.array([[0, 1, 2], [2, 1, 0]]), const=True)))
    cases.append(("VariableDecl", L.VariableDecl(t, L.Mul(w, L.LiteralFloat(-0.5)))))
    body = [L.AssignAdd(L.ArrayAccess(A, (L.Add(L.Mul(L.LiteralInt(3), i), j),)), L.Mul(L.ArrayAccess(T1, (i,)), L.ArrayAccess(T4, (i, j, L.LiteralInt(0), k))))]
    loop = L.ForRange(i, 0, 3, [L.ForRange(j, L.LiteralInt(1), L.Add(i, L.LiteralInt(2)), [L.ForRange(k, 0, 2, body)])])
    cases.append(("nested ForRange", loop))
    cases.append(("Assign", L.Statement(L.Assign(t, L.Sub(w, L.Neg(t))))))
    sec = L.Section("S", [loop, L.Statement(L.AssignAdd(L.ArrayAccess(A, (L.LiteralInt(0),)), t))], [L.VariableDecl(t, L.LiteralFloat(1.25))], input=[w], output=[t])
    cases.append(("Section with declarations", sec))
    cases.append(("Section without statements", L.Section("D", [], [L.ArrayDecl(L.Symbol("Q", L.DataType.REAL), sizes=(2,), values=np.array([0.25, 0.75]), const=True)])))
    cases.append(("StatementList", L.StatementList([sec, L.Comment("c"), loop])))
    return cases


def check_statements():
    import ffcx.codegeneration.lnodes as L
    from ffcx.codegeneration.C.formatter import Formatter

    fails = []
    n = 0
    for dtype in ("float64", "complex128"):
        fmt = Formatter(dtype)
        names = c_call_names(dtype)
        for d, node in statement_cases(L):
            n += 1
            text = fmt(node)
            want = []
            norm_l_stmts(node, L, want)
            try:
                items = cparse.parse_c_body(strip_comments(text))
                got = [cparse.norm_c_stmt(it) for it in items]
            except Exception as e:  # noqa: BLE001
                fails.append((f"{d} [{dtype}]", f"text does not parse: {type(e).__name__}: {str(e)[:100]}", text[:200]))
                continue
            r = compare_stmt(("block", tuple(want)), ("block", tuple(got)), names)
            if r:
                fails.append((f"{d} [{dtype}]", r, text[:300]))
    return n, fails


def work_kernel(item):
    """Whole captured kernel ASTs: the text emitted by the real pipeline parses back to the captured tree."""
    k0, cfg, scalar = item
    import ffcx.codegeneration.lnodes as L
    from ffcx.codegeneration.C.formatter import Formatter

    res = dict(key=k0, status="ok", kernels=0, statements=0, failures=[])
    try:
        B = forms.build(cfg)
    except Exception:
        res["status"] = "inapplicable"
        return res
    import ffcx.compiler

    try:
        with lvm.capture() as caps:
            import ffcx.options

            ffcx.compiler.compile_ufl_objects([B.form], options=ffcx.options.get_options({"scalar_type": scalar}))
    except Exception as e:
        res["status"] = "rejected"
        return res
    fmt = Formatter(scalar)
    names = c_call_names(scalar)
    for cap in caps:
        res["kernels"] += 1
        text = fmt(cap.ast)
        want = []
        norm_l_stmts(cap.ast, L, want)
        try:
            items = cparse.parse_c_body(strip_comments(text).replace("double _Complex", "double").replace("float _Complex", "float"))
            got = [cparse.norm_c_stmt(it) for it in items]
        except Exception as e:  # noqa: BLE001
            res["failures"].append(dict(kind="kernel-does-not-parse", text=f"{cap.name}: {type(e).__name__}: {str(e)[:160]}"))
            continue
        res["statements"] += len(got)
        r = compare_stmt(("block", tuple(want)), ("block", tuple(got)), names)
        if r:
            res["failures"].append(dict(kind="kernel-tree-differs", text=f"kernel {cap.name}_{cap.domain}: {r}"))
    if res["failures"]:
        res["status"] = "violation"
    return res


def _dispatch(item):
    if item[0] == "expr":
        _, language, dtype, part, nparts, chains = item
        n, fails, total = check_expressions(language, dtype, part, nparts, chains)
        return dict(kind="expr", language=language, dtype=dtype, n=n, fails=fails[:200], nfails=len(fails), total=total)
    if item[0] == "kernel":
        return dict(kind="kernel", r=work_kernel(item[1:]))
    raise KeyError(item[0])


def classify(desc, reason, text):
    """Stable class of an expression-level failure: (parent/child operator kinds, kind of discrepancy) - no operand values."""
    ops = re.findall(r"[A-Za-z][A-Za-z0-9]*(?=@|\()", desc)
    if "unary:--" in reason or "unary:++" in reason:
        return "Neg-of-negative-literal", "printed as a decrement/increment operator"
    if "does not parse" in reason:
        return "/".join(ops[:2]), "text does not parse"
    if "CHAINED-COMPARISON" in reason:
        return "comparison-of-comparison", "parses as a chained comparison"
    if "literal" in reason:
        return "literal", "literal value differs"
    return "/".join(ops[:2]), reason.split("(")[0].strip()[:50]


def main():
    chk = Check(PID)
    import ffcx.codegeneration.lnodes as L

    cov = dict(states=0, transitions=0, traces_validated_against_impl=0, trees={}, literals={}, statements=0, kernels=0, exhaustive=True)
    samples = []
    nparts = 16
    items = []
    for language, dtype in (("C", "float64"), ("C", "complex128"), ("numba", "float64")):
        chains = chk.thorough or (language, dtype) == ("C", "float64")
        for p in range(nparts):
            items.append(("expr", language, dtype, p, nparts, chains))
    nodes, _ = audit.corpus(chk.thorough)
    kcfgs = list(nodes.items())
    if not chk.thorough:
        kcfgs = kcfgs[::4]
    for k, cfg in kcfgs:
        items.append(("kernel", k, cfg, "float64"))
    for k, cfg in kcfgs[::6]:
        items.append(("kernel", k + "[complex128]", cfg, "complex128"))
    grouped = {}
    for it, r in pmap(_dispatch, items, desc="C16"):
        if r["kind"] == "expr":
            key = f"{r['language']}:{r['dtype']}"
            cov["trees"][key] = cov["trees"].get(key, 0) + r["n"]
            cov["states"] += r["n"]
            cov["transitions"] += r["n"]
            for d, reason, text in r["fails"]:
                sig, why = classify(d, reason, text)
                grouped.setdefault((r["language"], sig, why), []).append((d, reason, text, r["dtype"]))
        else:
            kr = r["r"]
            cov["kernels"] += kr["kernels"]
            cov["statements"] += kr["statements"]
            cov["traces_validated_against_impl"] += kr["kernels"] if kr["status"] == "ok" else 0
            for f in kr["failures"][:1]:
                chk.violation(f"{PID}:kernel:{kr['key']}:{f['kind']}", f["text"], recipe=dict(kind="kernel", item=list(it[1:])), observed=kr["failures"][:3])
    # one violation per (formatter, operator signature, reason class); all instances listed in the replay file
    for (language, sig, why), inst in sorted(grouped.items()):
        d, reason, text, dtype = inst[0]
        chk.violation(f"{PID}:{language}:expr:{sig}:{why}", f"{language} formatter: tree {d} is emitted as `{text}`: {reason} ({len(inst)} trees in this class)",
                      recipe=dict(kind="expr", language=language, tree=d), observed=[dict(tree=a, reason=b, text=c, dtype=e) for a, b, c, e in inst[:40]])
    # statements
    ns, sf = check_statements()
    cov["statements"] += ns
    cov["states"] += ns
    for d, reason, text in sf:
        chk.violation(f"{PID}:C:stmt:{d}", f"C formatter, {d}: {reason}; text: {text[:160]}", recipe=dict(kind="stmt", case=d))
    # literals
    for language, dtype in (("C", "float64"), ("numba", "float64")):
        n, worst, bad = check_literals(language, dtype)
        cov["literals"][language] = dict(values=n, worst_ulp=worst, off_by_more_than_1ulp=len(bad))
        cov["states"] += n
        if bad:
            v, t, why = bad[0]
            chk.violation(f"{PID}:{language}:literal:readback", f"{language} formatter prints the double {v!r} as `{t}` which reads back {why} away "
                          f"({len(bad)} of {n} grid values are off by more than 1 ulp)", recipe=dict(kind="literal", language=language), observed=[dict(value=a, text=b, error=c) for a, b, c in bad[:30]])
    for language, dtype, npd in (("C", "float64", np.float64), ("C", "float32", np.float32), ("numba", "float64", np.float64), ("numba", "float32", np.float32)):
        n, worst, bad = check_initialiser_literals(language, dtype, npd)
        cov["literals"][f"{language}:initialiser:{np.dtype(npd).name}"] = dict(values=n, worst_ulp=worst, off_by_more_than_1ulp=len(bad))
        cov["states"] += n
        if bad:
            v, t, why = bad[0]
            chk.violation(f"{PID}:{language}:literal:initialiser:{np.dtype(npd).name}", f"{language} formatter prints the {np.dtype(npd).name} table value {v!r} as `{t}`: {why} "
                          f"({len(bad)} of {n} initialiser values are wrong)", recipe=dict(kind="literal-init", language=language, dtype=dtype), observed=[dict(value=a, text=b, error=c) for a, b, c in bad[:30]])
    samples.append(dict(tree="Sub@1[Add(x,f-)]", note="every tree is formatted, parsed back and compared structurally"))
    cov["samples"] = samples
    cov["evaluations"] = cov["states"]
    cov["distinct_nontrivial"] = sum(cov["trees"].values())
    cov["rule"] = ("states = formatted-and-reparsed objects: every expression tree of depth <= 2 over all node kinds in every operand position + all depth-3 chains, for the C formatter "
                   "(float64, complex128) and the numba formatter; statement cases; literal grid; captured kernel ASTs of the corpus re-parsed as whole bodies")
    chk.finish(cov, assumptions=["C grammar = pycparser (C99/C11), Python grammar = ast.parse; math function names are only required to be the formatter's table entry or the bare name",
                                 "the numba formatter is compared under Python semantics (chained comparisons are a different tree)"])


def replay(path):
    doc = json.load(open(path))
    print(json.dumps(doc["observed"], indent=1)[:3000])
    return 1
