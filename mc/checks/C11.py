"""C11 - requested quadrature degree/scheme is honoured and exact where it should be (DESIGN §4 C11).

(1) the finite space cell x degree 0..30 x scheme {default, Gauss-Jacobi, GLL where defined}: one functional
    sum_m c_m x^m dx(degree=q, scheme) whose Constant vector selects EVERY monomial of total degree q and q-1 in turn,
    on the reference cell and on an affine image, against values obtained from rules that are themselves anchored on
    closed-form monomial integrals for every degree <= 34 (reference cell: closed form directly); the weights table in
    the captured L-AST must equal the basix rule of that degree/scheme, which the harness checks against ALL monomials
    of degree <= q (closed form).  Same for exterior-facet integrals.
(2) all ordered pairs (q1, q2) of differing degrees meeting in one subdomain (quick: a covering subset incl. the pairs with
    equal point counts): non-polynomial integrands, each must be integrated with its own rule (vs R).
(3) forms without metadata that are polynomial on affine cells: compared with R at degree + 4 (exactness).
(4) vertex scheme and quadrature elements vs their defining points/weights (R), incl. rules meeting other rules.
"""

from __future__ import annotations

import itertools
import json
import math

import basix
import basix.ufl
import numpy as np
import ufl

from .. import engine, forms, lvm, oracle
from ..runner import Check, pmap

PID = "C11"
TD = oracle.TDIM
SIMPLEX = ("interval", "triangle", "tetrahedron")


def exact_monomial(cell, a):
    """Closed-form integral of x^a over the reference cell."""
    if cell in SIMPLEX:
        return math.prod(math.factorial(k) for k in a) / math.factorial(sum(a) + len(a))
    if cell in ("quadrilateral", "hexahedron"):
        return math.prod(1.0 / (k + 1) for k in a)
    if cell == "prism":
        return math.factorial(a[0]) * math.factorial(a[1]) / math.factorial(a[0] + a[1] + 2) / (a[2] + 1)
    raise KeyError(cell)


def monomials(d, deg):
    return [a for a in itertools.product(range(deg + 1), repeat=d) if sum(a) == deg]


def scheme_defined(cell, scheme, q):
    if scheme == "GLL":
        return cell in ("interval", "quadrilateral", "hexahedron")
    return True


def rule_exactness(cell, q, scheme):
    """The basix rule itself against ALL monomials of total degree <= q (closed form). Returns (#monomials, max error)."""
    pts, wts = basix.make_quadrature(oracle.celltype(cell), q, rule=basix.quadrature.string_to_type(scheme))
    d = TD[cell]
    worst, n = 0.0, 0
    for deg in range(q + 1):
        for a in monomials(d, deg):
            v = float(np.sum(wts * np.prod(pts ** np.array(a), axis=1)))
            worst = max(worst, abs(v - exact_monomial(cell, a)) / exact_monomial(cell, a))
            n += 1
    return n, worst, pts, wts


def balanced_sum(terms):
    terms = list(terms)
    while len(terms) > 1:
        terms = [terms[i] + terms[i + 1] if i + 1 < len(terms) else terms[i] for i in range(0, len(terms), 2)]
    return terms[0]


def work_monomials(item):
    kind, cell, q, scheme, itype, seed = item
    res = dict(key=f"mono:{cell}:{itype}:{scheme}:q{q}", status="ok", calls=0, maxerr=0.0, failures=[], monomials=0, rule_monomials=0)
    d = TD[cell]
    mesh = ufl.Mesh(basix.ufl.element("P", cell, 1, shape=(d,)))
    x = ufl.SpatialCoordinate(mesh)
    mons = monomials(d, q) + (monomials(d, q - 1) if q >= 1 else [])
    c = ufl.Constant(mesh, shape=(len(mons),))

    def mono(a):
        e = 1.0
        for i, k in enumerate(a):
            if k:
                e = e * x[i] ** k
        return e

    md = {"quadrature_degree": q}
    if scheme != "default":
        md["quadrature_rule"] = scheme
    M = ufl.dx if itype == "dx" else ufl.ds
    form = balanced_sum([c[i] * mono(a) for i, a in enumerate(mons)]) * M(domain=mesh, metadata=md)
    # the rule that must be used, checked against all monomials <= q
    ecell = cell if itype == "dx" else None
    try:
        with lvm.capture() as caps:
            comp = engine.Compiled(form, "float64")
    except Exception as e:
        res["status"] = "violation" if "VerificationError" in type(e).__name__ else "rejected"
        res["why"] = f"{type(e).__name__}: {str(e)[-200:]}"
        if res["status"] == "violation":
            res["failures"].append(dict(kind="invalid-c", text=f"degree {q} scheme {scheme} on {cell} {itype}: generated C does not compile: {str(e)[-200:]}"))
        return res
    try:
        ct = oracle.celltype(cell)
        if itype == "dx":
            nmon, worst, pts, wts = rule_exactness(cell, q, scheme)
            res["rule_monomials"] = nmon
            if worst > 1e-11:
                print("HARNESS-ERROR: basix rule not exact", cell, q, scheme, worst)
                raise SystemExit(2)
            # weights table of the kernel == that rule
            wtabs = []
            for cap in caps:
                def walk(n):
                    import ffcx.codegeneration.lnodes as L
                    if isinstance(n, L.ArrayDecl) and n.symbol.name.startswith("weights_"):
                        wtabs.append(np.asarray(n.values, dtype=float).ravel())
                    for attr in ("statements", "declarations"):
                        for s in getattr(n, attr, []) or []:
                            walk(s)
                    if hasattr(n, "body"):
                        walk(n.body)
                walk(cap.ast)
            if not any(len(t) == len(wts) and np.allclose(np.sort(t), np.sort(wts), rtol=1e-13, atol=1e-15) for t in wtabs):
                res["failures"].append(dict(kind="weights-table", text=f"{cell} dx degree {q} scheme {scheme}: no weights table of the kernel equals the basix rule "
                                            f"({len(wts)} points); tables have sizes {[len(t) for t in wtabs]}"))
        # kernel on reference cell and affine image for every monomial (unit Constant vectors)
        rng = np.random.default_rng([seed, 19])
        ref = engine.reference_nodes(mesh)
        Mx = engine._AFF[d]
        b = np.array([0.3, -0.2, 0.5])[:d]
        hp, hw = basix.make_quadrature(ct, min(q + 3, 30))  # anchored rule of higher degree for affine images
        for label, X in (("ref", ref), ("aff", ref @ Mx.T + b)):
            if itype == "dx":
                ents = [None]
            else:
                ents = list(range(oracle.num_entities(cell, d - 1)))
            for ent in ents:
                # truth per monomial
                if itype == "dx":
                    if label == "ref":
                        truth = np.array([exact_monomial(cell, a) for a in mons])
                    else:
                        xp = hp @ Mx.T + b
                        truth = np.array([np.sum(hw * np.prod(xp ** np.array(a), axis=1)) for a in mons]) * abs(np.linalg.det(Mx))
                    ks = comp.kernels_for("cell", -1)
                else:
                    fcell = oracle.entity_cellname(cell, d - 1, ent) if d > 1 else "point"
                    if fcell == "point":
                        fp, fw = np.zeros((1, 0)), np.ones(1)
                    else:
                        fp, fw = basix.make_quadrature(oracle.celltype(fcell), min(q + 3, 30))
                    xr = oracle.map_to_cell(cell, d - 1, ent, fp)
                    fv = oracle.entity_vertices(cell, d - 1, ent)
                    if label == "aff":
                        xr = xr @ Mx.T + b
                        fv = fv @ Mx.T + b
                    # facet measure scaling: |facet| / |reference facet|
                    if d == 1:
                        scale = 1.0
                    elif d == 2:
                        scale = np.linalg.norm(fv[1] - fv[0])
                    else:
                        e1, e2 = fv[1] - fv[0], fv[2] - fv[0]
                        scale = np.linalg.norm(np.cross(e1, e2))
                    truth = np.array([np.sum(fw * np.prod(xr ** np.array(a), axis=1)) for a in mons]) * scale
                    tag = 0 if fcell == "point" else int(oracle.celltype(fcell))
                    ks = [k for k in comp.kernels_for("exterior_facet", -1) if comp.kernels[k].domain == tag]
                if not ks:
                    res["failures"].append(dict(kind="no-kernel", text=f"no kernel for {cell} {itype} entity {ent}"))
                    continue
                X3 = engine.pack_geometry([X])
                for i, a in enumerate(mons):
                    cvec = np.zeros(len(mons))
                    cvec[i] = 1.0
                    call = engine.Call("float64", np.zeros(1), np.zeros(0), cvec, X3, (ent or 0,), (0, 0), null_entity=(itype == "dx"))
                    for k in ks:
                        call.run(comp.kernels[k])
                    v = call.result()[0]
                    res["calls"] += 1
                    err = abs(v - truth[i]) / max(abs(truth[i]), 1e-300)
                    res["maxerr"] = max(res["maxerr"], err)
                    if err > 1e-10 or call.breaches():
                        res["failures"].append(dict(kind="inexact", monomial=list(a), geometry=label, entity=ent, value=v, exact=float(truth[i]),
                                                    text=f"{cell} {itype}(degree={q}, scheme={scheme}) entity={ent} on the {label} cell: monomial x^{a} integrates to {v!r}, exact {truth[i]!r} (rel. error {err:.2e})"))
                        if len(res["failures"]) > 3:
                            break
                if len(res["failures"]) > 3:
                    break
        res["monomials"] = len(mons)
        if res["failures"]:
            res["status"] = "violation"
        return res
    finally:
        comp.cleanup()


def work_pair(item):
    kind, cell, q1, q2, itype, seed = item
    res = dict(key=f"pair:{cell}:{itype}:q{q1}+q{q2}", status="ok", calls=0, maxerr=0.0, failures=[])
    d = TD[cell]
    mesh = ufl.Mesh(basix.ufl.element("P", cell, 1, shape=(d,)))
    V = ufl.FunctionSpace(mesh, basix.ufl.element("P", cell, 1))
    v = ufl.TestFunction(V)
    f = ufl.Coefficient(V)
    x = ufl.SpatialCoordinate(mesh)
    M = {"dx": ufl.dx, "ds": ufl.ds}[itype]
    form = ufl.exp(x[0] + f) * v * M(domain=mesh, metadata={"quadrature_degree": q1}) + (1.0 + ufl.sin(3.0 * x[d - 1])) * f * v * M(domain=mesh, metadata={"quadrature_degree": q2})
    r = engine.check_form_against_oracle(form, mesh, cell, "affine", "float64", None, seed, entity_mode="quick", instances=("aff",))
    res["calls"] = r.get("evaluations", 0)
    res["maxerr"] = r.get("maxerr", 0.0)
    if r["status"] == "violation":
        res["status"] = "violation"
        res["failures"] = [dict(kind=f["kind"], text=f"rules of degree {q1} and {q2} on one subdomain ({cell} {itype}): " + f["text"]) for f in r["failures"][:2]]
    elif r["status"] == "invalid-c":
        res["status"] = "violation"
        res["failures"] = [dict(kind="invalid-c", text=f"rules of degree {q1} and {q2} on one subdomain ({cell} {itype}): generated C does not compile: {r.get('why', '')[-240:]}")]
    elif r["status"] != "ok":
        res["status"] = r["status"]
        res["why"] = r.get("why")
    return res


def work_same(item):
    """The SAME integrand under two different rules on one subdomain (e.g. a reduced + a full rule of one term): both contributions must be there."""
    kind, cell, md1, md2, itype, seed = item
    def fmt(md):
        return f"{md.get('quadrature_rule', 'default')}{md['quadrature_degree']}"

    res = dict(key=f"same:{cell}:{itype}:{fmt(md1)}+{fmt(md2)}", status="ok", calls=0, maxerr=0.0, failures=[])
    d = TD[cell]
    mesh = ufl.Mesh(basix.ufl.element("P", cell, 1, shape=(d,)))
    V = ufl.FunctionSpace(mesh, basix.ufl.element("P", cell, 1))
    v = ufl.TestFunction(V)
    f = ufl.Coefficient(V)
    x = ufl.SpatialCoordinate(mesh)
    M = {"dx": ufl.dx, "ds": ufl.ds, "dS": ufl.dS}[itype]
    integrand = ufl.exp(x[0] + f("+")) * v("-") if itype == "dS" else ufl.exp(x[0] + f) * v
    form = integrand * M(domain=mesh, metadata=dict(md1)) + integrand * M(domain=mesh, metadata=dict(md2))
    r = engine.check_form_against_oracle(form, mesh, cell, "affine", "float64", None, seed, entity_mode="quick", instances=("aff",))
    res["calls"] = r.get("evaluations", 0)
    res["maxerr"] = r.get("maxerr", 0.0)
    if r["status"] == "violation":
        res["status"] = "violation"
        res["failures"] = [dict(kind=f["kind"], text=f"one integrand under the rules {md1} and {md2} on one subdomain ({cell} {itype}): " + f["text"]) for f in r["failures"][:2]]
    elif r["status"] == "invalid-c":
        res["status"] = "violation"
        res["failures"] = [dict(kind="invalid-c", text=f"one integrand under the rules {md1} and {md2} ({cell} {itype}): generated C does not compile: {r.get('why', '')[-240:]}")]
    elif r["status"] != "ok":
        res["status"] = r["status"]
        res["why"] = r.get("why")
    return res


def work_form(item):
    kind, name, seed = item
    res = dict(key=f"form:{name}", status="ok", calls=0, maxerr=0.0, failures=[])
    form, mesh, cell, geom, force = named_form(name)
    r = engine.check_form_against_oracle(form, mesh, cell, geom, "float64", None, seed, entity_mode="quick", instances=("ref", "aff"), oracle_degree_shift=force)
    res["calls"] = r.get("evaluations", 0)
    res["maxerr"] = r.get("maxerr", 0.0)
    if r["status"] == "violation":
        res["status"] = "violation"
        res["failures"] = [dict(kind=f["kind"], text=f"{name}: " + f["text"]) for f in r["failures"][:2]]
    elif r["status"] == "invalid-c":
        res["status"] = "violation"
        res["failures"] = [dict(kind="invalid-c", text=f"{name}: generated C does not compile: {r.get('why', '')[-240:]}")]
    elif r["status"] != "ok":
        res["status"] = r["status"]
        res["why"] = r.get("why")
    return res


FORM_NAMES = []


def _register():
    for cell in ("interval", "triangle", "tetrahedron", "quadrilateral", "hexahedron", "prism"):
        for nm in ("poly-mass-P2", "poly-stiff-P2", "poly-P3xP1", "poly-facet"):
            FORM_NAMES.append(f"{nm}@{cell}")
        for nm in ("vertex-dx", "vertex-ds", "vertex+deg2-dx", "vertex+deg2-ds", "deg2+vertex-ds", "quadel1", "quadel3", "quadelGLL", "quadel+deg", "three-rules", "deg2+auto", "auto+deg0", "deg1+auto-facet",
                   "custom-dx", "custom-samepts-dx", "custom+default-samepts-dx", "custom-ds", "vertex+vertex2-ds", "vertex+custom-ds", "default+custom-ds",
                   "onept+onept-dx", "deg1+onept-dx", "onept+deg1-ds"):
            FORM_NAMES.append(f"{nm}@{cell}")


_register()


def named_form(name):
    nm, cell = name.split("@")
    d = TD[cell]
    mesh = ufl.Mesh(basix.ufl.element("P", cell, 1, shape=(d,)))
    el = basix.ufl.element
    V1 = ufl.FunctionSpace(mesh, el("P", cell, 1))
    V2 = ufl.FunctionSpace(mesh, el("P", cell, 2))
    f, g = ufl.Coefficient(V1), ufl.Coefficient(V2)
    x = ufl.SpatialCoordinate(mesh)
    u2, v2 = ufl.TrialFunction(V2), ufl.TestFunction(V2)
    v1 = ufl.TestFunction(V1)
    dx, ds = ufl.dx(domain=mesh), ufl.ds(domain=mesh)
    vmd = {"quadrature_rule": "vertex", "quadrature_degree": 1}
    shift = 0
    if nm == "poly-mass-P2":
        form, shift = f * g * u2 * v2 * dx, 4
    elif nm == "poly-stiff-P2":
        form, shift = (1.0 + x[0] * x[d - 1]) * ufl.inner(ufl.grad(u2), ufl.grad(v2)) * dx, 4
    elif nm == "poly-P3xP1":
        V3 = ufl.FunctionSpace(mesh, el("P", cell, 3))
        form, shift = ufl.TrialFunction(V3) * v1 * g * dx, 4
    elif nm == "poly-facet":
        form, shift = f * g * u2 * v2 * ds, 4
    elif nm == "vertex-dx":
        form = f * g * v1 * ufl.dx(domain=mesh, metadata=vmd)
    elif nm == "vertex-ds":
        if cell == "prism":
            raise forms.Inapplicable("vertex scheme needs one facet type")
        form = f * g * v1 * ufl.ds(domain=mesh, metadata=vmd)
    elif nm == "vertex+deg2-dx":
        form = f * v1 * ufl.dx(domain=mesh, metadata=vmd) + ufl.sin(g) * v1 * ufl.dx(domain=mesh, metadata={"quadrature_degree": 2})
    elif nm == "vertex+deg2-ds":
        if cell == "prism":
            raise forms.Inapplicable("vertex scheme needs one facet type")
        form = f * v1 * ufl.ds(domain=mesh, metadata=vmd) + ufl.sin(g) * v1 * ufl.ds(domain=mesh, metadata={"quadrature_degree": 2})
    elif nm == "deg2+vertex-ds":
        if cell == "prism":
            raise forms.Inapplicable("vertex scheme needs one facet type")
        form = ufl.sin(g) * v1 * ufl.ds(domain=mesh, metadata={"quadrature_degree": 2}) + f * v1 * ufl.ds(domain=mesh, metadata=vmd)
    elif nm in ("quadel1", "quadel3", "quadelGLL", "quadel+deg"):
        deg = {"quadel1": 1, "quadel3": 3, "quadelGLL": 3, "quadel+deg": 2}[nm]
        kw = {}
        if nm == "quadelGLL":
            if cell not in ("interval", "quadrilateral", "hexahedron"):
                raise forms.Inapplicable("GLL on tensor cells")
            kw["scheme"] = "GLL"
        Q = ufl.FunctionSpace(mesh, basix.ufl.quadrature_element(cell, degree=deg, **kw))
        qc = ufl.Coefficient(Q)
        form = qc * ufl.exp(f) * v1 * ufl.dx(domain=mesh, metadata={"quadrature_degree": deg, **({"quadrature_rule": "GLL"} if nm == "quadelGLL" else {})})
        if nm == "quadel+deg":
            form = form + ufl.cos(g) * v1 * ufl.dx(domain=mesh, metadata={"quadrature_degree": 4})
    elif nm in ("onept+onept-dx", "deg1+onept-dx", "onept+deg1-ds"):
        # two DIFFERENT one-point rules in one group: with a single point every value is "piecewise", yet it holds at that rule's point only
        facet = nm.endswith("ds")
        if facet and cell in ("interval", "prism"):
            raise forms.Inapplicable("point facets / two facet types")
        ent = oracle.entity_cellname(cell, d - 1, 0) if facet else cell
        ev = np.asarray(basix.geometry(oracle.celltype(ent)), dtype=float)
        pa = (0.6 * ev[0] + 0.4 * ev.mean(axis=0))[None, :]
        pb = (0.3 * ev[-1] + 0.7 * ev.mean(axis=0))[None, :]
        vol = basix.cell.volume(oracle.celltype(ent))
        ca = {"quadrature_rule": "custom", "quadrature_points": pa, "quadrature_weights": np.array([0.8 * vol])}
        cb = {"quadrature_rule": "custom", "quadrature_points": pb, "quadrature_weights": np.array([0.3 * vol])}
        M = ufl.ds if facet else ufl.dx
        first, second = {"onept+onept-dx": (ca, cb), "deg1+onept-dx": ({"quadrature_degree": 1}, cb), "onept+deg1-ds": (ca, {"quadrature_degree": 1})}[nm]
        form = ufl.exp(f) * x[0] * v1 * M(domain=mesh, metadata=first) + ufl.sin(g) * f * v1 * M(domain=mesh, metadata=second)
    elif nm in ("vertex+vertex2-ds", "vertex+custom-ds", "default+custom-ds"):
        # several integrals of one facet group whose rules are set per integral (vertex / custom schemes): each is on the facet, whatever came before
        if cell in ("interval", "prism"):
            raise forms.Inapplicable("point facets / two facet types")
        ent = oracle.entity_cellname(cell, d - 1, 0)
        p2, w2 = basix.make_quadrature(oracle.celltype(ent), 3)
        cmd = {"quadrature_rule": "custom", "quadrature_points": np.ascontiguousarray(p2), "quadrature_weights": np.asarray(w2) * np.linspace(0.8, 1.3, len(w2))}
        first = {"vertex+vertex2-ds": vmd, "vertex+custom-ds": vmd, "default+custom-ds": {"quadrature_degree": 2}}[nm]
        second = {"vertex+vertex2-ds": {"quadrature_rule": "vertex", "quadrature_degree": 2}, "vertex+custom-ds": cmd, "default+custom-ds": cmd}[nm]
        form = f * v1 * ufl.ds(domain=mesh, metadata=first) + ufl.sin(g) * g * v1 * ufl.ds(domain=mesh, metadata=second)
    elif nm.startswith("custom"):
        # user-supplied rules (metadata scheme 'custom'): exactly these points and weights; two rules that share their POINTS but not their
        # weights (or share them with a built-in rule) are different rules
        ent = cell if nm.endswith("dx") else None
        if ent is None:
            if cell in ("interval", "prism"):
                raise forms.Inapplicable("custom facet rule: point facets / two facet types")
            ent = oracle.entity_cellname(cell, d - 1, 0)
        p2, w2 = basix.make_quadrature(oracle.celltype(ent), 2)
        p2 = np.ascontiguousarray(p2)
        wa = np.asarray(w2) * np.linspace(0.7, 1.4, len(w2))
        wb = np.asarray(w2)[::-1] * np.linspace(1.3, 0.6, len(w2))
        M = ufl.dx if nm.endswith("dx") else ufl.ds
        ca = {"quadrature_rule": "custom", "quadrature_points": p2, "quadrature_weights": wa}
        cb = {"quadrature_rule": "custom", "quadrature_points": p2.copy(), "quadrature_weights": wb}
        if nm in ("custom-dx", "custom-ds"):
            form = ufl.exp(f) * g * v1 * M(domain=mesh, metadata=ca)
        elif nm == "custom-samepts-dx":
            form = ufl.exp(f) * v1 * M(domain=mesh, metadata=ca) + ufl.sin(g) * f * v1 * M(domain=mesh, metadata=cb)
        else:
            form = ufl.exp(f) * v1 * M(domain=mesh, metadata=ca) + ufl.sin(g) * f * v1 * M(domain=mesh, metadata={"quadrature_degree": 2})
    elif nm == "deg2+auto":
        # one integral with an explicit (too low) degree, one without metadata: the latter must get UFL's estimated degree
        form = x[0] ** 2 * v1 * ufl.dx(domain=mesh, metadata={"quadrature_degree": 2}) + x[0] ** 6 * g * v1 * dx
    elif nm == "auto+deg0":
        form = 2.0 * v1 * ufl.dx(domain=mesh, metadata={"quadrature_degree": 0}) + (x[d - 1] ** 4 + x[0] ** 2) * f * v1 * dx
    elif nm == "deg1+auto-facet":
        form = x[0] * v1 * ufl.ds(domain=mesh, metadata={"quadrature_degree": 1}) + x[0] ** 5 * g * v1 * ds
    elif nm == "three-rules":
        form = (ufl.exp(f) * v1 * ufl.dx(domain=mesh, metadata={"quadrature_degree": 1}) + ufl.sin(g) * v1 * ufl.dx(domain=mesh, metadata={"quadrature_degree": 3})
                + ufl.cos(f * g) * v1 * ufl.dx(domain=mesh, metadata={"quadrature_degree": 6}))
    else:
        raise KeyError(nm)
    return form, mesh, cell, "affine", shift


def _dispatch(item):
    try:
        return {"mono": work_monomials, "pair": work_pair, "form": work_form, "same": work_same}[item[0]](item)
    except forms.Inapplicable:
        return dict(key=str(item[:5]), status="inapplicable", calls=0, maxerr=0.0, failures=[])


def main():
    chk = Check(PID)
    items = []
    cells = ["interval", "triangle", "quadrilateral", "tetrahedron", "hexahedron", "prism"]
    qs_all = list(range(31))
    qs_sub = [0, 1, 2, 3, 5, 8, 13, 21, 30]
    for cell in cells:
        hi = 30 if TD[cell] < 3 or chk.thorough else 16  # 3D cells up to 30 in the thorough tier (hundreds of monomials per form)
        for q in qs_all:
            if q <= hi or q in (21, 26, 30):
                items.append(("mono", cell, q, "default", "dx", chk.seed))
        for scheme in ("Gauss-Jacobi", "GLL"):
            for q in (qs_all if chk.thorough else qs_sub):
                if scheme_defined(cell, scheme, q) and (q <= hi or chk.thorough):
                    items.append(("mono", cell, q, scheme, "dx", chk.seed))
        if cell != "prism":
            for q in (qs_all if chk.thorough else [0, 1, 2, 4, 7, 12, 20]):
                items.append(("mono", cell, q, "default", "ds", chk.seed))
    # pairs of rules meeting in one subdomain
    counts = {}
    for q in qs_all:
        counts.setdefault(len(basix.make_quadrature(basix.CellType.triangle, q)[1]), []).append(q)
    same_count = [(a, b) for qs in counts.values() for a in qs for b in qs if a != b]
    pair_set = set(itertools.permutations(qs_all, 2)) if chk.thorough else set(itertools.permutations([0, 1, 2, 3, 5, 8, 15, 26, 30], 2)) | set(same_count)
    for q1, q2 in sorted(pair_set):
        items.append(("pair", "triangle", q1, q2, "dx", chk.seed))
    for cell, it in (("interval", "dx"), ("quadrilateral", "dx"), ("tetrahedron", "dx"), ("triangle", "ds"), ("tetrahedron", "ds"), ("hexahedron", "dx")):
        for q1, q2 in (itertools.permutations([0, 1, 2, 4, 7], 2) if not chk.thorough else itertools.permutations([0, 1, 2, 3, 4, 5, 7, 10, 15, 26, 30], 2)):
            items.append(("pair", cell, q1, q2, it, chk.seed))
    # the same integrand under two rules of one subdomain: all unordered pairs of a degree set, and named-scheme / vertex-scheme partners
    dq = [0, 1, 2, 3, 5, 8] if not chk.thorough else [0, 1, 2, 3, 4, 5, 6, 8, 12, 15, 26]
    for cell, it in (("triangle", "dx"), ("quadrilateral", "dx"), ("tetrahedron", "ds"), ("triangle", "dS")) + ((("interval", "dx"), ("hexahedron", "dx"), ("tetrahedron", "dx"), ("quadrilateral", "dS")) if chk.thorough else ()):
        for q1, q2 in itertools.combinations(dq if (cell, it) == ("triangle", "dx") or chk.thorough else [1, 2, 4], 2):
            items.append(("same", cell, {"quadrature_degree": q1}, {"quadrature_degree": q2}, it, chk.seed))
        ent = cell if it == "dx" else {"triangle": "interval", "quadrilateral": "interval", "tetrahedron": "triangle", "hexahedron": "quadrilateral"}[cell]
        other = "GLL" if ent in ("interval", "quadrilateral", "hexahedron") else "Gauss-Jacobi"
        for q in (2, 3):
            items.append(("same", cell, {"quadrature_degree": q, "quadrature_rule": other}, {"quadrature_degree": q}, it, chk.seed))
        items.append(("same", cell, {"quadrature_rule": "vertex", "quadrature_degree": 1}, {"quadrature_degree": 4}, it, chk.seed))
    for nm in FORM_NAMES:
        items.append(("form", nm, chk.seed))
    items.sort(key=lambda it: (it[0] == "mono" and TD.get(it[1], 0) == 3, it[2] if it[0] == "mono" else 0), reverse=True)
    tot = dict(items=len(items), ok=0, rejected=0, inapplicable=0, violating=0, kernel_calls=0, monomials=0, rule_monomials=0, by_kind={})
    samples = []
    for it, r in pmap(_dispatch, items, desc="C11"):
        tot["kernel_calls"] += r.get("calls", 0)
        tot["monomials"] += r.get("monomials", 0)
        tot["rule_monomials"] += r.get("rule_monomials", 0)
        bk = tot["by_kind"].setdefault(it[0], dict(ok=0, violating=0, other=0))
        if r["status"] == "ok":
            tot["ok"] += 1
            bk["ok"] += 1
            if len(samples) < 8 and it[0] == "mono" and it[2] in (7, 30):
                samples.append(dict(item=r["key"], monomials=r.get("monomials"), kernel_calls=r["calls"], max_rel_err=r["maxerr"]))
        elif r["status"] == "violation":
            tot["violating"] += 1
            bk["violating"] += 1
            f = r["failures"][0]
            chk.violation(f"{PID}:{r['key']}:{f['kind']}", f["text"], recipe=dict(item=list(it)), observed=r["failures"][:3])
        else:
            tot["rejected" if r["status"] != "inapplicable" else "inapplicable"] += 1
            bk["other"] += 1
    cov = dict(states=len(items), transitions=tot["kernel_calls"], traces_validated_against_impl=tot["ok"] + tot["violating"], evaluations=tot["kernel_calls"],
               distinct_nontrivial=tot["ok"], totals=tot, samples=samples or [dict(note="none")], exhaustive=True,
               rule=("(cell, degree, scheme, integral type) combinations as listed in the module docstring - per combination every monomial of total degree q and q-1 on the reference cell and an affine "
                     "image (every facet for ds); ordered pairs of degrees on one subdomain; polynomial forms without metadata vs degree+4; vertex scheme / quadrature elements alone and next to other rules"))
    chk.finish(cov, assumptions=["truth for affine images comes from basix rules of higher degree, which are themselves checked against closed-form monomial integrals in the same run",
                                 "quick tier: 3D default rules up to degree 16 plus 21, 26, 30; thorough: all degrees 0..30 for every scheme"])


def replay(path):
    doc = json.load(open(path))
    r = _dispatch(tuple(doc["recipe"]["item"]))
    print(r["status"], r.get("why", ""))
    for f in r["failures"]:
        print("  ", f["text"])
    return 1 if r["status"] == "violation" else 0
