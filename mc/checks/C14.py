"""C14 - concurrent JIT requests on a shared cache: exhaustive schedule exploration of the real
``compile_forms`` protocol code (DESIGN §4 C14, §2.5, Appendix A)."""

from __future__ import annotations

import json
import os
import sys

from .. import jitconf, sched
from ..runner import NCPU, Check

PID = "C14"


def scenarios(thorough):
    S, P = sched.Scenario, sched.ProcSpec
    out = []
    # two concurrent requests for the same module + one later request
    out.append(S("2req+later/pb2", [P("P0", "A", 2), P("P1", "A", 2), P("L", "A", 2, after=("P0", "P1"))], preemptions=2))
    # two different modules sharing the cache directory, each requested twice
    out.append(S("2mod-x2/pb1", [P("P0", "A", 2), P("P1", "B", 2), P("P2", "A", 2), P("L", "B", 2, after=("P0", "P1", "P2"))], preemptions=1))
    if thorough:
        out.append(S("2req+later/pb3/t3", [P("P0", "A", 3), P("P1", "A", 3), P("L", "A", 3, after=("P0", "P1"))], preemptions=3))
        out.append(S("3req+later/pb2", [P("P0", "A", 2), P("P1", "A", 2), P("P2", "A", 2), P("L", "A", 2, after=("P0", "P1", "P2"))], preemptions=2))
        out.append(S("3req/pb3/t1", [P("P0", "A", 1), P("P1", "A", 1), P("P2", "A", 1)], preemptions=3))
        out.append(S("2mod-x2/pb2", [P("P0", "A", 2), P("P1", "B", 2), P("P2", "A", 2), P("P3", "B", 2)], preemptions=2))
        out.append(S("2req+2later-overlap/pb2", [P("P0", "A", 2), P("P1", "A", 2), P("L1", "A", 2, after=("P0", "P1")),
                                                   P("L2", "A", 2, after=("P0", "P1"))], preemptions=2))
    return out


def report(chk: Check, rec, E=None):
    """Confirm by double replay, then report."""
    sc = sched.scenario_from_json(rec["scenario"])
    with sched.Explorer() as E:
        same, ex = E.replay_twice(sc, rec["choices"])
    if not same:
        print("HARNESS-ERROR: schedule did not replay deterministically:", rec["scenario"]["name"], rec["choices"])
        sys.exit(2)
    if not ex.violations:
        print("HARNESS-ERROR: violation vanished on replay", rec["choices"])
        sys.exit(2)
    inv = ex.violations[0][0]
    key = f"{chk.pid}:{inv}:{sc.name}"
    chk.violation(key, ex.violations[0][1], recipe=dict(scenario=rec["scenario"], choices=rec["choices"]),
                  observed=dict(trace=rec["trace"], outcomes=rec["outcomes"], violations=rec["violations"]))


def conformance(chk: Check, cov):
    n = 0
    try:
        real, res = jitconf.strace_build()
        stub = jitconf.stub_build_events()
        cov["strace_real_build_events"] = real
        # only the stubbed part (cffi's builder: source rewrite, object file, shared object) is compared; FFCx's own
        # steps (lock, marker) are the real code in the explorer as well and need no conformance
        def builder_part(ev):
            return [e for e in ev if e[0] == "rename" or e[1] in ("M.c.~pid", "M.o", "M.so")]
        real, stub = builder_part(real), builder_part(stub)
        if real != stub:
            # the model (stub builder) no longer matches cffi's real step sequence: harness, not FFCx
            if chk.new_violations:
                # the exploration of the real protocol code already reported violations: the implementation under test no longer does what the
                # stub was written against (e.g. it names its files differently from request to request) - reported, not a harness failure
                chk.violation(f"{PID}:conformance:builder-sequence", f"file-system sequence of a real build differs from the builder model: real {real} / model {stub}",
                              recipe="mc.jitconf.strace_build", observed=dict(real=real, stub=stub))
            else:
                print("HARNESS-ERROR: stub builder sequence differs from strace of the real build\n real:", real, "\n stub:", stub)
                sys.exit(2)
        else:
            n += 1
    except RuntimeError as e:
        chk.assumptions.append(f"strace conformance skipped: {e}")
    tr = jitconf.truncated_import_check()
    cov["real_loader_on_partial_so"] = tr
    if not tr["complete"]:
        print("HARNESS-ERROR: complete module does not import")
        sys.exit(2)
    n += 1
    outs, files = jitconf.real_concurrent(6 if chk.thorough else 4)
    cov["real_concurrent_outcomes"] = [{k: v for k, v in o.items() if k != "A"} for o in outs]
    built = sum(1 for o in outs if o.get("built"))
    if any("exc" in o for o in outs):
        chk.violation(f"{PID}:real-concurrent:exception", f"real concurrent processes raised: {[o for o in outs if 'exc' in o]}",
                      recipe="mc.jitconf.real_concurrent", observed=outs)
    elif built != 1:
        chk.violation(f"{PID}:real-concurrent:builds={built}", f"{built} of {len(outs)} real concurrent processes compiled (must be exactly 1)",
                      recipe="mc.jitconf.real_concurrent", observed=outs)
    elif any(o["A"] != outs[0]["A"] for o in outs):
        chk.violation(f"{PID}:real-concurrent:results-differ", "real concurrent processes computed different tensors",
                      recipe="mc.jitconf.real_concurrent", observed=outs)
    n += len(outs)
    # re-enactment of the model's outcome class "waiter times out while the builder is still compiling; a later request reuses the cache"
    sb = jitconf.real_slow_builder()
    cov["real_slow_builder_outcomes"] = {k: {kk: vv for kk, vv in v.items() if kk != "A"} for k, v in sb.items()}
    ok = (sb["builder"].get("built") is True and sb["waiter"].get("exc") == "TimeoutError" and sb["later"].get("built") is False
          and sb["later"].get("A") == sb["builder"].get("A"))
    if not ok:
        chk.violation(f"{PID}:real-slow-builder", f"real processes with a slow C compiler: expected builder=built, waiter=TimeoutError, later=cached with equal kernels; got "
                      f"{cov['real_slow_builder_outcomes']}", recipe="mc.jitconf.real_slow_builder", observed=sb)
    n += 3
    return n


def main():
    chk = Check(PID)
    cov = dict(states=0, transitions=0, executions=0, pruned_revisits=0, scenarios=[], exhaustive=True)
    samples = []
    classes_total = 0
    for sc in scenarios(chk.thorough):
        stats, found, classes, completed = sched.explore_scenario(sc, NCPU)
        cov["states"] += stats["states"]
        cov["transitions"] += stats["transitions"]
        cov["executions"] += stats["executions"]
        cov["pruned_revisits"] += stats["pruned"]
        cov["exhaustive"] = cov["exhaustive"] and completed
        cov["scenarios"].append(dict(name=sc.name, procs=[(p.name, p.module, p.timeout, list(p.after)) for p in sc.procs],
                                     preemption_bound=sc.preemptions, executions=stats["executions"], states=stats["states"],
                                     distinct_outcome_classes=len(classes), completed=completed))
        classes_total += len(classes)
        for k, (choices, summ) in list(classes.items())[:3]:
            samples.append(dict(scenario=sc.name, schedule_choices=choices, outcome=summ))
        seen_inv = set()
        for rec in found:
            inv = rec["violations"][0][0]
            if inv in seen_inv:
                continue
            seen_inv.add(inv)
            report(chk, rec)
    # TLA+ model (tla/JitCache.tla): TLC checks the invariants on the full state graph (no preemption bound); every maximal behaviour
    # (or, for the larger instance, an edge-covering set) is replayed on the real code
    from .. import tlaconf

    plans = [(2, 1, "all"), (3, 1, "edges")] if not chk.thorough else [(2, 1, "all"), (2, 2, "all"), (3, 1, "edges"), (3, 2, "edges"), (4, 1, "none")]
    cov["tla_model"] = []
    tla_replayed = 0
    for npr, to, mode in plans:
        r = tlaconf.model_and_conformance(npr, to, mode, NCPU)
        cov["tla_model"].append({k: v for k, v in r.items() if k not in ("failures", "tlc_tail")})
        tla_replayed += r["replayed"]
        cov["states"] += r["model_states"]
        cov["transitions"] += r["model_transitions"]
        if not r["tlc_ok"]:
            chk.violation(f"{PID}:tla-model:{npr}procs:T{to}:invariant", f"TLC reports an invariant violation of the protocol model with {npr} processes, timeout {to}: {r['tlc_tail'][-300:]}",
                          recipe=dict(kind="tla", nprocs=npr, timeout=to))
        for f in r["failures"][:1]:
            chk.violation(f"{PID}:tla-conformance:{npr}procs:T{to}", f"model behaviour not reproduced by the implementation ({npr} processes, timeout {to}): {f['problem']}",
                          recipe=dict(kind="tla-path", nprocs=npr, timeout=to, path=f["path"]), observed=r["failures"][:3])
    cov["model_behaviours_replayed_on_impl"] = tla_replayed
    cov["distinct_outcome_classes"] = classes_total
    cov["traces_validated_against_impl"] = conformance(chk, cov) + tla_replayed
    cov["samples"] = samples
    cov["rule"] = ("every interleaving of the file-system steps / polls of the listed requests within the preemption bound, on the real "
                   "compile_forms code over a real tmpfs directory; state = directory contents + per-process observation history")
    chk.finish(cov, assumptions=[
        "scheduling points are the file-system operations on the cache directory and time.sleep; Python code between them is atomic",
        "cffi's builder and the extension loader are stubs bound to the real ones by strace order, truncated-import and real concurrent runs",
        "POSIX semantics (O_EXCL, rename atomicity) are the kernel's (real tmpfs directory)",
    ])


def replay(path):
    doc = json.load(open(path))
    r = doc["recipe"]
    if not isinstance(r, dict):
        print("replay: run", r)
        return 0
    sc = sched.scenario_from_json(r["scenario"])
    with sched.Explorer() as E:
        same, ex = E.replay_twice(sc, r["choices"])
    for t in ex.trace:
        print("  ", t)
    print("outcomes:", ex.summary())
    print("violations:", ex.violations)
    return 1 if ex.violations else 0
