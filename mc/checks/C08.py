"""C08 - kernels stay inside the extents the UFCx contract gives them (DESIGN §4 C08).

For every kernel of the corpus the captured L-AST is executed by the LVM with ALL valid entity and permutation
values (full product when <= 64 combinations, otherwise a covering family in which every entity value and every
code value occurs on each side - sufficient because table dimensions are indexed separately and flat pointers are
not indexed by them).  Every access of every loop iteration is checked per dimension against the declared table
sizes and against harness-computed extents of w, c, coordinate_dofs, entity_local_index, quadrature_permutation and A.
Cell kernels get NULL entity/permutation pointers; non-interior-facet kernels a NULL permutation pointer.
Binding to the implementation: the compiled C kernel runs on the same inputs with NaN/canary moats and must agree
with the LVM; thorough additionally builds kernels with clang -fsanitize=address,undefined and exact-size heap buffers.
"""

from __future__ import annotations

import itertools
import json
import os
import subprocess
import tempfile

import numpy as np

from .. import audit, engine, forms, lvm
from ..runner import Check, pmap, scratch

PID = "C08"
LVM_CAP = 600_000


def covering(evs, limit=64):
    """All combinations when few; else a family covering every value of every index position."""
    if len(evs) <= limit:
        return evs, True
    ents = sorted({e for e, _ in evs})
    codes = sorted({c for _, c in evs})
    pick = set()
    f0 = sorted({e[0] for e in ents})
    f1 = sorted({e[1] for e in ents})
    c0 = sorted({c[0] for c in codes})
    c1 = sorted({c[1] for c in codes})
    valid = set(evs)
    n = max(len(f0), len(f1), len(c0), len(c1))
    for j in range(n):
        cand = ((f0[j % len(f0)], f1[(j + 1) % len(f1)]), (c0[j % len(c0)], c1[(len(c1) - 1 - j) % len(c1)]))
        if cand in valid:
            pick.add(cand)
    # make sure every single value is present
    for pos, vals in ((0, f0), (1, f1)):
        for v in vals:
            if not any(e[pos] == v for e, _ in pick):
                pick.add(next(x for x in evs if x[0][pos] == v))
    for pos, vals in ((0, c0), (1, c1)):
        for v in vals:
            if not any(c[pos] == v for _, c in pick):
                pick.add(next(x for x in evs if x[1][pos] == v))
    return sorted(pick), False


def asan_build_and_run(case, workdir):
    """Stand-alone clang ASan/UBSan build of the generated C with a driver calling every kernel on exact-size heap buffers."""
    import ffcx.codegeneration

    inc = ffcx.codegeneration.get_include_path()
    src = case.comp.code[1]
    names = case.names
    body = ['#include <stdlib.h>', '#include <string.h>', '#include <stdint.h>', '#include <stdio.h>', '#include <ufcx.h>']
    calls = []
    rng = np.random.default_rng(5)
    for k, itype, sid, cap in case.kernels():
        kern = case.comp.kernels[k]
        evs = case.entity_values(itype, kern.domain)
        inp = case.inputs(itype, rng)
        sides = inp["sides"]
        body.append(f"extern ufcx_integral {names[k]};")

        def arr(vals, ctype):
            return ", ".join(repr(float(v)) if ctype == "double" else str(int(v)) for v in vals) or "0"

        nA, nw, nc, nx = inp["nA"], len(inp["w"]), len(inp["c"]), len(inp["X"])
        calls.append("{")
        calls.append(f"  static const double w0[] = {{{arr(inp['w'], 'double')}}}; static const double c0[] = {{{arr(inp['c'], 'double')}}}; static const double x0[] = {{{arr(inp['X'], 'double')}}};")
        calls.append(f"  double* w = malloc({max(nw, 1)} * sizeof(double)); double* c = malloc({max(nc, 1)} * sizeof(double)); double* x = malloc({nx} * sizeof(double));")
        calls.append(f"  memcpy(w, w0, {nw} * sizeof(double)); memcpy(c, c0, {nc} * sizeof(double)); memcpy(x, x0, {nx} * sizeof(double));")
        if nw == 0:
            calls.append("  free(w); w = malloc(0);")
        if nc == 0:
            calls.append("  free(c); c = malloc(0);")
        for ents, codes in evs:
            calls.append(f"  {{ double* A = calloc({nA}, sizeof(double));")
            if itype == "cell":
                calls.append(f"    {names[k]}.tabulate_tensor_float64(A, w, c, x, NULL, NULL, NULL);")
            else:
                ne = len(sides)
                calls.append(f"    int* e = malloc({ne} * sizeof(int)); " + " ".join(f"e[{i}] = {ents[i]};" for i in range(ne)))
                if itype == "interior_facet":
                    calls.append(f"    uint8_t* p = malloc(2); p[0] = {codes[0]}; p[1] = {codes[1]};")
                    calls.append(f"    {names[k]}.tabulate_tensor_float64(A, w, c, x, e, p, NULL); free(p);")
                else:
                    calls.append(f"    {names[k]}.tabulate_tensor_float64(A, w, c, x, e, NULL, NULL);")
                calls.append("    free(e);")
            calls.append("    volatile double s = 0; for (int i = 0; i < %d; ++i) s += A[i]; free(A); }" % nA)
        calls.append("  free(w); free(c); free(x); }")
    drv = "\n".join(body) + "\nint main(void) {\n" + "\n".join(calls) + "\n  printf(\"ASAN-DRIVER-OK\\n\");\n  return 0;\n}\n"
    open(os.path.join(workdir, "k.c"), "w").write(src)
    open(os.path.join(workdir, "d.c"), "w").write(drv)
    exe = os.path.join(workdir, "a.out")
    r = subprocess.run(["clang", "-std=c17", "-O1", "-g", "-fsanitize=address,undefined", "-fno-sanitize-recover=all", "-I", inc, "k.c", "d.c", "-lm", "-o", exe],
                       cwd=workdir, capture_output=True, text=True)
    if r.returncode:
        return "build-failed", r.stderr[-400:]
    r = subprocess.run([exe], capture_output=True, text=True, env=dict(os.environ, ASAN_OPTIONS="detect_leaks=0"))
    if r.returncode or "ASAN-DRIVER-OK" not in r.stdout:
        return "sanitizer", (r.stderr or r.stdout)[-600:]
    return "ok", ""


def work(item):
    k0, cfg, seed, thorough = item
    res = dict(key=k0, status="ok", kernels=0, lvm_runs=0, accesses=0, lvm_skipped=0, combos=0, full_product=0, c_calls=0, asan=0, failures=[], conformance=0)
    try:
        case = audit.Case(cfg)
    except forms.Inapplicable:
        res["status"] = "inapplicable"
        return res
    except Exception as e:
        res["status"] = "rejected"
        res["why"] = f"{type(e).__name__}: {str(e)[:100]}"
        return res
    try:
        rng = np.random.default_rng([seed, 4])
        for k, itype, sid, cap in case.kernels():
            res["kernels"] += 1
            kern = case.comp.kernels[k]
            evs = case.entity_values(itype, kern.domain)
            if not evs:
                continue
            inp = case.inputs(itype, rng)
            combos, full = covering(evs, 64 if not thorough else 2500)
            res["full_product"] += int(full)
            prog = lvm.Program(cap.ast, cmplx=case.cmplx) if cap is not None else None
            scale = None
            for ents, codes in combos:
                res["combos"] += 1
                call = case.call_c(k, itype, inp, ents, codes)
                res["c_calls"] += 1
                Ac = call.result()
                br = call.breaches()
                if br:
                    res["failures"].append(dict(kind="moat", text=f"{itype} kernel {k} entities={ents} codes={codes}: {br}"))
                    break
                if not np.all(np.isfinite(Ac)):
                    res["failures"].append(dict(kind="nan-from-moat", text=f"{itype} kernel {k} entities={ents} codes={codes}: result contains NaN/Inf although all inputs inside the extents "
                                                "are finite (a read outside the extents picked up the NaN moat)"))
                    break
                if prog is None:
                    continue
                try:
                    # non-interior-facet kernels must not touch the permutation pointer: LVM gets None for it
                    sides = inp["sides"]
                    dt = complex if case.cmplx else float
                    A = np.zeros(inp["nA"], dtype=dt)
                    ent = None if itype == "cell" else np.array(ents[: len(sides)], dtype=np.int64)
                    perm = np.array(codes[:2], dtype=np.int64) if itype == "interior_facet" else None
                    tr = lvm.Trace(budget=LVM_CAP)
                    prog.run(A, np.asarray(inp["w"], dtype=dt), np.asarray(inp["c"], dtype=dt), np.asarray(inp["X"], dtype=float), ent, perm, trace=tr)
                except lvm.Budget:
                    res["lvm_skipped"] += 1
                    prog = None
                    continue
                except (ArithmeticError, ValueError) as e:
                    # typically the consequence of an out-of-extent read (which the LVM answers with 0): report that access
                    if tr.oob:
                        name, idx, shp, mode = tr.oob[0]
                        res["failures"].append(dict(kind="out-of-extent", array=name, index=list(idx), extent=list(shp) if shp else None, mode=mode,
                                                    text=f"{itype} kernel {k} entities={ents} codes={codes}: {mode} of {name}{list(idx)} outside its extent {shp}"))
                    else:
                        res["failures"].append(dict(kind="arithmetic-error", text=f"{itype} kernel {k} entities={ents} codes={codes}: {type(e).__name__}: {e} while interpreting the kernel"))
                    break
                res["lvm_runs"] += 1
                res["accesses"] += tr.n
                if tr.oob:
                    name, idx, shp, mode = tr.oob[0]
                    res["failures"].append(dict(kind="out-of-extent", array=name, index=list(idx), extent=list(shp) if shp else None, mode=mode,
                                                text=f"{itype} kernel {k} entities={ents} codes={codes}: {mode} of {name}{list(idx)} outside its extent {shp} "
                                                f"({len(tr.oob)} such accesses)"))
                    break
                sc = max(float(np.max(np.abs(Ac))), 1e-30)
                if float(np.max(np.abs(A - Ac))) / sc > 1e-10:
                    res["failures"].append(dict(kind="harness-conformance", text=f"LVM deviates from C kernel {k} entities={ents} codes={codes}"))
                    break
                res["conformance"] += 1
            if res["failures"]:
                break
        if thorough and not res["failures"] and case.scalar == "float64":
            wd = tempfile.mkdtemp(prefix="asan_", dir=scratch("asan"))
            st, msg = asan_build_and_run(case, wd)
            import shutil

            shutil.rmtree(wd, ignore_errors=True)
            res["asan"] = 1
            if st == "sanitizer":
                res["failures"].append(dict(kind="sanitizer", text=f"clang ASan/UBSan run of the generated kernels with exact-size heap buffers failed: {msg[-300:]}"))
            elif st == "build-failed":
                res["asan"] = 0
                res["asan_note"] = msg
        if res["failures"]:
            res["status"] = "violation"
        return res
    finally:
        case.cleanup()


def main():
    chk = Check(PID)
    nodes, edges = audit.corpus(chk.thorough)
    items = [(k, cfg, chk.seed, chk.thorough) for k, cfg in nodes.items()]
    items.sort(key=lambda it: it[1]["cell"] in ("tetrahedron", "hexahedron", "prism"), reverse=True)
    tot = dict(configs=len(items), ok=0, inapplicable=0, rejected=0, kernels=0, lvm_runs=0, accesses=0, lvm_skipped=0, combos=0, full_product=0, c_calls=0, asan=0, conformance=0)
    samples = []
    for it, r in pmap(work, items, desc="C08"):
        for f in ("kernels", "lvm_runs", "accesses", "lvm_skipped", "combos", "full_product", "c_calls", "asan", "conformance"):
            tot[f] += r[f]
        if r["status"] in ("ok", "inapplicable", "rejected"):
            tot[r["status"]] += 1
            if r["status"] == "ok" and len(samples) < 5 and r["combos"] > 2:
                samples.append(dict(config=r["key"], kernels=r["kernels"], entity_code_combinations=r["combos"], traced_accesses=r["accesses"]))
        else:
            f = r["failures"][0]
            if f["kind"] == "harness-conformance":
                print("HARNESS-ERROR:", r["key"], f["text"])
                raise SystemExit(2)
            chk.violation(f"{PID}:{r['key']}:{f['kind']}", f["text"], recipe=dict(config=it[1], seed=chk.seed, thorough=chk.thorough), observed=r["failures"][:3])
    cov = dict(states=tot["combos"], transitions=tot["accesses"], traces_validated_against_impl=tot["conformance"], evaluations=tot["combos"],
               distinct_nontrivial=tot["ok"], totals=tot, samples=samples or [dict(note="none")], exhaustive=True,
               rule=("states = (kernel, entity values, permutation codes) combinations executed by the LVM (full product when <= 64 [2500 thorough], else a family covering every value "
                     "of every index); transitions = traced array accesses, each checked per dimension; kernels above the access budget are skipped by the LVM (counted) and "
                     "remain covered by the NaN/canary moats of the compiled run"))
    chk.finish(cov, assumptions=[
        "index expressions of generated kernels do not depend on floating-point data, so one LVM run per (entity, code) value visits every access the C kernel can make",
        "LVM bound to the compiled kernel by agreement on every run; extents computed by the harness from the form (ufcx.h contract)",
    ])


def replay(path):
    doc = json.load(open(path))
    rec = doc["recipe"]
    r = work(("replay", rec["config"], rec.get("seed", 0), rec.get("thorough", False)))
    print(r["status"])
    for f in r["failures"]:
        print("  ", f["text"])
    return 1 if r["status"] == "violation" else 0
