"""C10 - optimisation options never change the computed tensor (DESIGN §4 C10).

Metamorphic, no expected values: for every configuration of the C10 corpus the form is compiled with default
options and with the option under test, both are called on identical inputs (all local entities / code pairs as in
C02 quick mode) and the outputs must satisfy the relation of the option:
  sum_factorization=True : equal to rounding on quadrilateral/hexahedron cell integrals (the tensor rule is verified to be
                           the same point set as the default rule for every degree 0..30 first); "no effect" - the same
                           result, not an exception - on every integral it does not apply to (simplices, facet/vertex integrals)
  part='diagonal'        : rank-1 output equal to diag(full) for every bilinear form (mixed spaces: the diagonal of the block
                           diagonal, which is the same thing); no effect on arity <= 1; several forms in one request
  table_rtol/table_atol  : |delta| <= 100 (rtol + atol) max|A| over the grid {0, default, x1000}^2
"""

from __future__ import annotations

import itertools
import json

import basix
import numpy as np

from .. import engine, forms, space
from ..runner import Check, pmap

PID = "C10"


def rule_sets_coincide():
    n = 0
    for cell, d in (("quadrilateral", 2), ("hexahedron", 3)):
        for q in range(31):
            p, w = basix.make_quadrature(getattr(basix.CellType, cell), q)
            p1, w1 = basix.make_quadrature(basix.CellType.interval, q)
            pts = np.array([[x[0] for x in pp] for pp in itertools.product(*([p1] * d))])
            wts = np.array([np.prod(ww) for ww in itertools.product(*([w1] * d))])
            a = sorted(map(tuple, np.round(np.hstack([p, w[:, None]]), 12)))
            b = sorted(map(tuple, np.round(np.hstack([pts, wts[:, None]]), 12)))
            if a != b:
                return False, (cell, q)
            n += 1
    return True, n


def corpus(thorough):
    items = []
    # --- sum factorisation where it applies
    dims = ["elem", "op", "factor", "wrap", "arity", "geom", "quad"]
    cells = ["quadrilateral", "hexahedron"]
    # tensor-product-ordered elements (the kind sum factorisation is implemented for) ...
    nodes, e1, _ = space.explore([dict(space.baseline(c, "dx"), tp=True) for c in cells], 2 if thorough else 1, dims=dims)
    for k, cfg in nodes.items():
        items.append(("sumfact", k, cfg))
    for c in cells:
        for el in ("P3", "P2"):
            for ar in (2, 1):
                cfg = dict(space.baseline(c, "dx"), tp=True, tpmixed=True, test=el, trial=el, factor="fg", arity=ar, geom="general")
                items.append(("sumfact", space.key(cfg) + ",tpmixed", cfg))
    # ... and the standard elements of the same cells (baseline + element/operator deviations)
    nodes_std, e1b, _ = space.explore([space.baseline(c, "dx") for c in cells], 1, dims=["elem", "op", "arity"])
    e1 += e1b
    for k, cfg in nodes_std.items():
        items.append(("sumfact", k, cfg))
    # --- sum factorisation where it does not apply: simplices, facet and vertex integrals, mixed dx+ds forms
    na = [space.baseline("triangle", "dx"), space.baseline("tetrahedron", "dx"), space.baseline("interval", "dx"), space.baseline("prism", "dx"),
          space.baseline("quadrilateral", "ds"), space.baseline("quadrilateral", "dS"), space.baseline("hexahedron", "ds"), space.baseline("quadrilateral", "dP"),
          space.baseline("triangle", "dS"), dict(space.baseline("quadrilateral", "dx"), tp=True, extra="dx+ds")]
    n2, e2, _ = space.explore(na[:-1], 1, dims=["elem", "arity"] if not thorough else ["elem", "arity", "op", "factor"])
    for k, cfg in n2.items():
        items.append(("sumfact-na", k, cfg))
    items.append(("sumfact-na", space.key(na[-1]) + ",extra=dx+ds", na[-1]))
    # --- diagonal
    dcells = ["triangle", "quadrilateral", "tetrahedron"] + (["interval", "hexahedron", "prism"] if thorough else [])
    n3, e3, _ = space.explore([space.baseline(c, it) for c in dcells for it in ("dx", "ds", "dS") if not (c == "prism" and it == "dS")], 1,
                              dims=["elem", "op", "factor", "wrap", "arity", "restr"] if thorough else ["elem", "op", "arity", "restr"])
    for k, cfg in n3.items():
        items.append(("diagonal", k, cfg))
    # every vector-valued / mixed element x every operator that couples its components (the diagonal must not pick up coupling blocks)
    for c in dcells[:2] if not thorough else dcells:
        for el in ("vP1", "vP2", "vDG1", "TH", "vP1xP1", "RTxDG0", "nested", "N1curl1", "RT1", "BDM1"):
            for opn in ("csum", "divcurl", "grad"):
                for it in ("dx", "dS") if c != "prism" else ("dx",):
                    cfg = dict(space.apply(space.baseline(c, it), "elem", el), op=opn)
                    if space.key(cfg) not in n3:
                        items.append(("diagonal", space.key(cfg), cfg))
    items.append(("diagonal-multi", "two mixed forms in one request", dict(cell="triangle")))
    # --- tolerances
    tol_cfgs, e4, _ = space.explore([space.baseline(c, "dx") for c in ("triangle", "quadrilateral", "tetrahedron")] + [space.baseline("triangle", "dS")], 1,
                                    dims=["elem", "op", "geom"])
    grid = [(r, a) for r in (0.0, 1e-6, 1e-3) for a in (0.0, 1e-9, 1e-6) if (r, a) != (1e-6, 1e-9)]
    for k, cfg in tol_cfgs.items():
        items.append(("tol", k, dict(cfg, grid=grid if thorough else [(0.0, 0.0), (1e-3, 1e-6), (1e-3, 0.0), (0.0, 1e-6)])))
    return items, e1 + e2 + e3 + e4


def _build(cfg):
    B = forms.build({k: v for k, v in cfg.items() if k not in ("extra", "grid")})
    form = B.form
    if cfg.get("extra") == "dx+ds":
        import ufl

        V = B.form.arguments()[0].ufl_function_space()
        u, v = ufl.TrialFunction(V), ufl.TestFunction(V)
        form = form + u * v * ufl.ds(domain=B.mesh)
    return B, form


def compare(a, b, tol, relation="equal", info=None):
    """a, b: outputs of collect_outputs. Returns (max deviation, first failing key or None)."""
    worst, bad = 0.0, None
    for key, (Aa, shape_a, br_a, nk_a) in a.items():
        if key not in b:
            return np.inf, key
        Ab, shape_b, br_b, nk_b = b[key]
        if relation == "diag":
            full = np.asarray(Aa).reshape(shape_a)
            ref = np.diagonal(full) if full.ndim == 2 else full
            got = np.asarray(Ab)
        else:
            ref, got = np.asarray(Aa), np.asarray(Ab)
        if ref.shape != got.shape:
            return np.inf, key
        sc = max(float(np.max(np.abs(ref))) if ref.size else 0.0, 1e-30)
        dev = float(np.max(np.abs(ref - got))) / sc if ref.size else 0.0
        if not np.all(np.isfinite(got)):
            dev = np.inf
        if br_b:
            dev = np.inf
        if dev > worst:
            worst = dev
            if dev > tol and bad is None:
                bad = key
    return worst, bad


def work(item):
    kind, key, cfg, seed = item
    res = dict(key=f"{kind}:{key}", status="ok", calls=0, nontrivial=0, maxdev=0.0, failures=[])
    try:
        if kind == "diagonal-multi":
            return work_multi(res, seed)
        try:
            B, form = _build(cfg)
        except forms.Inapplicable:
            res["status"] = "inapplicable"
            return res
        except Exception as e:
            res["status"] = "inapplicable"
            res["why"] = str(e)[:80]
            return res
        geom = cfg.get("geom", "affine")
        st0, base, info0 = engine.collect_outputs(form, B.mesh, B.cell, geom, "float64", None, seed)
        if st0 != "ok":
            res["status"] = "rejected"
            res["why"] = info0
            return res
        res["calls"] += len(base)
        res["nontrivial"] = sum(1 for v in base.values() if np.max(np.abs(v[0])) > 1e-12)

        def fail(kind_, text, obs=None):
            res["failures"].append(dict(kind=kind_, text=text, observed=obs))
            res["status"] = "violation"

        if kind in ("sumfact", "sumfact-na"):
            st, out, info = engine.collect_outputs(form, B.mesh, B.cell, geom, "float64", {"sum_factorization": True}, seed)
            if st != "ok":
                fail("option-raises:" + info.split(":")[0], f"sum_factorization=True: compile_forms raises {info} although the same form compiles without the option "
                     + ("(the option does not apply to this integral and must have no effect)" if kind == "sumfact-na" else ""))
                return res
            res["calls"] += len(out)
            dev, bad = compare(base, out, 1e-10)
            res["maxdev"] = dev
            if bad is not None:
                fail("sumfact-differs", f"sum_factorization=True changes the tensor of {bad[:2]} entities={bad[3]} by {dev:.2e} (relative)", dict(call=str(bad)))
        elif kind == "diagonal":
            st, out, info = engine.collect_outputs(form, B.mesh, B.cell, geom, "float64", {"part": "diagonal"}, seed)
            arity = cfg.get("arity", 2)
            if st != "ok":
                fail("option-raises:" + info.split(":")[0], f"part='diagonal' (arity {arity}): compile_forms raises {info} although the same form compiles with part='full'")
                return res
            res["calls"] += len(out)
            if arity == 2:
                if cfg["test"] != cfg["trial"]:
                    res["status"] = "inapplicable"
                    return res
                dev, bad = compare(base, out, 1e-11, relation="diag")
                what = "is not the diagonal of the full tensor"
            else:
                dev, bad = compare(base, out, 1e-12)
                what = "differs from part='full' although the option does not apply to arity <= 1"
            res["maxdev"] = dev
            if bad is not None:
                fail("diagonal-wrong", f"part='diagonal' output for {bad[:2]} entities={bad[3]} codes={bad[4]} {what} (deviation {dev:.2e})", dict(call=str(bad)))
        elif kind == "tol":
            for rt, at in cfg["grid"]:
                st, out, info = engine.collect_outputs(form, B.mesh, B.cell, geom, "float64", {"table_rtol": rt, "table_atol": at}, seed)
                if st != "ok":
                    fail("option-raises", f"table_rtol={rt}, table_atol={at}: compile_forms raises {info}")
                    return res
                res["calls"] += len(out)
                bound = max(100.0 * (rt + at), 1e-10)
                dev, bad = compare(base, out, bound)
                res["maxdev"] = max(res["maxdev"], dev)
                if bad is not None:
                    fail("tolerance-exceeded", f"table_rtol={rt}, table_atol={at} changes the tensor of {bad[:2]} by {dev:.2e} > {bound:.1e}", dict(call=str(bad)))
                    break
        return res
    except NotImplementedError as e:
        res["status"] = "oracle-unsupported"
        res["why"] = str(e)
        return res


def work_multi(res, seed):
    """Several bilinear forms on mixed/blocked spaces in ONE compile_forms request with part='diagonal'."""
    import basix.ufl
    import ufl

    cell = "triangle"
    mesh = ufl.Mesh(basix.ufl.element("P", cell, 1, shape=(2,)))
    TH = basix.ufl.mixed_element([basix.ufl.element("P", cell, 2, shape=(2,)), basix.ufl.element("P", cell, 1)])
    W = ufl.FunctionSpace(mesh, TH)
    (u, p), (v, q) = ufl.TrialFunctions(W), ufl.TestFunctions(W)
    VV = ufl.FunctionSpace(mesh, basix.ufl.element("P", cell, 1, shape=(2,)))
    uu, vv = ufl.TrialFunction(VV), ufl.TestFunction(VV)
    fl = [ufl.inner(ufl.grad(u), ufl.grad(v)) * ufl.dx + p * q * ufl.dx + ufl.div(u) * q * ufl.dx,
          ufl.inner(u, v) * ufl.dx + 2.0 * p * q * ufl.dx,
          ufl.inner(uu, vv) * ufl.dx + uu[0] * vv[1] * ufl.dx]
    for i, form in enumerate(fl):
        st0, base, _ = engine.collect_outputs(form, mesh, cell, "affine", "float64", None, seed)
        st, out, info = engine.collect_outputs(form, mesh, cell, "affine", "float64", {"part": "diagonal"}, seed, forms_list=list(fl), index=i)
        if st != "ok" or st0 != "ok":
            res["failures"].append(dict(kind="option-raises", text=f"three forms in one request with part='diagonal': {info}"))
            res["status"] = "violation"
            return res
        res["calls"] += len(base) + len(out)
        dev, bad = compare(base, out, 1e-11, relation="diag")
        res["maxdev"] = max(res["maxdev"], dev)
        if bad is not None:
            res["failures"].append(dict(kind="diagonal-wrong", text=f"part='diagonal' with several forms in one request: form #{i} is not the diagonal of its full tensor (deviation {dev:.2e})"))
            res["status"] = "violation"
            return res
    res["nontrivial"] = 3
    return res


def main():
    chk = Check(PID)
    ok, info = rule_sets_coincide()
    if not ok:
        print("HARNESS-ERROR: tensor-product rule differs from the default rule for", info)
        raise SystemExit(2)
    items, edges = corpus(chk.thorough)
    tot = dict(items=len(items), ok=0, inapplicable=0, rejected=0, violating=0, kernel_calls=0, nontrivial=0, by_kind={})
    samples = []
    for it, r in pmap(work, [(k, key, cfg, chk.seed) for k, key, cfg in items], desc="C10"):
        tot["kernel_calls"] += r["calls"]
        bk = tot["by_kind"].setdefault(it[0], dict(ok=0, other=0, violating=0))
        if r["status"] == "ok":
            tot["ok"] += 1
            bk["ok"] += 1
            tot["nontrivial"] += 1 if r["nontrivial"] else 0
            if len(samples) < 8 and r["calls"] > 2:
                samples.append(dict(item=r["key"], kernel_calls=r["calls"], max_rel_deviation=r["maxdev"]))
        elif r["status"] == "violation":
            tot["violating"] += 1
            bk["violating"] += 1
            f = r["failures"][0]
            chk.violation(f"{PID}:{r['key']}:{f['kind']}", f["text"], recipe=dict(kind=it[0], key=it[1], cfg=it[2], seed=chk.seed), observed=r["failures"][:3])
        else:
            tot[r["status"] if r["status"] in tot else "inapplicable"] += 1
            bk["other"] += 1
    cov = dict(states=len(items), transitions=edges, traces_validated_against_impl=tot["ok"] + tot["violating"], evaluations=tot["kernel_calls"],
               distinct_nontrivial=tot["nontrivial"], totals=tot, tensor_rule_equals_default_rule_degrees=info, samples=samples or [dict(note="none")], exhaustive=True,
               rule=("every configuration of the C10 corpus compiled with default options and with the option under test; outputs compared call by call on identical inputs "
                     "(every local entity, code pairs as in C02 quick mode); non-trivial = default-option output not identically zero"))
    chk.finish(cov, assumptions=["metamorphic oracle: the default-option kernel (itself checked against R in C01/C02)",
                                 "tolerance bound: 100 (rtol + atol) max|A|"])


def replay(path):
    doc = json.load(open(path))
    rec = doc["recipe"]
    r = work((rec["kind"], rec["key"], rec["cfg"], rec.get("seed", 0)))
    print(r["status"], r.get("why", ""))
    for f in r["failures"]:
        print("  ", f["text"])
    return 1 if r["status"] == "violation" else 0
