"""C07 - kernels accumulate into A and are pure functions of their inputs (DESIGN §4 C07).

(a) every kernel of the corpus: ALL call sequences of length <= 3 over {input a, input b} on persistent A buffers
    pre-filled with two patterns, against the reference A <- A + T(input) (T measured once from zero); inputs
    compared bit-for-bit after every call; A's surroundings guarded by canaries.
(b) LVM (interpreter of the captured L-AST, bound to the C kernel by a conformance run): complete write trace -
    every store is '+=' into A or a store into an object declared in the kernel, A is never read, inputs never written.
(c) generated C: every object with static storage duration inside a kernel body is const.
(d) schedules: two LVM invocations of the same kernel with the objects the C text declares static (non-const)
    shared; scheduling points = accesses to shared objects; ALL interleavings with <= 1 (quick) / <= 2 (thorough)
    preemptions must give the sequential results.  Where (c) holds there is no scheduling point and the search
    collapses to a single trace (reported as such).
(e) free-running pass: OS threads call the compiled kernel concurrently on disjoint A (cffi releases the GIL) and must
    reproduce the sequential results.
"""

from __future__ import annotations

import itertools
import json
import re
import threading

import numpy as np

from .. import audit, engine, forms, lvm
from ..runner import Check, pmap

PID = "C07"
LVM_CAP = 400_000  # estimated accesses above which the LVM part is skipped (reported)


def estimate_accesses(case, k):
    # cheap proxy: tensor size x quadrature-ish factor
    return None


class Baton:
    """Two LVM invocations interleaved at accesses to shared objects under an explicit plan."""

    def __init__(self, plan):
        self.plan = list(plan)  # [(thread, steps before switching away)]
        self.locks = [threading.Lock(), threading.Lock()]
        for l in self.locks:
            l.acquire()
        self.done = [False, False]
        self.count = [0, 0]
        self.current = None
        self.main = threading.Lock()
        self.main.acquire()
        self.points = [0, 0]

    def point(self, tid):
        self.points[tid] += 1
        if self.plan and self.plan[0][0] == tid:
            self.count[tid] += 1
            if self.count[tid] > self.plan[0][1]:
                # preempt here: hand over to the other thread
                self.plan.pop(0)
                self.count[tid] = 0
                other = 1 - tid
                if not self.done[other]:
                    self.locks[other].release()
                    self.locks[tid].acquire()

    def finish(self, tid):
        self.done[tid] = True
        other = 1 - tid
        if not self.done[other]:
            self.locks[other].release()
        else:
            self.main.release()


def interleave(prog, case, itype, inps, evs, shared_names, plan):
    """Run two invocations under `plan`; returns (A0, A1, points per thread)."""
    L = prog.L
    shared = {}
    bat = Baton(plan)
    results = [None, None]
    errors = []

    def body(tid):
        try:
            bat.locks[tid].acquire()
            inp = inps[tid]
            ents, codes = evs[tid]
            sides = inp["sides"]
            dt = complex if case.cmplx else float
            A = np.zeros(inp["nA"], dtype=dt)
            tr = lvm.Trace()
            # custom run with shared declarations
            ent = np.array(ents[: len(sides)] if itype != "cell" else (0,), dtype=np.int64)
            perm = np.array(codes[: len(sides)] if itype == "interior_facet" else (0,) * len(sides), dtype=np.int64)
            prog.run(A, np.asarray(inp["w"], dtype=dt), np.asarray(inp["c"], dtype=dt), np.asarray(inp["X"], dtype=float), ent, perm,
                     trace=tr, null_entity=(itype == "cell"), shared=shared, shared_names=shared_names, on_shared=lambda: bat.point(tid))
            results[tid] = A
        except BaseException as e:  # noqa: BLE001
            errors.append(repr(e))
        finally:
            bat.finish(tid)

    ths = [threading.Thread(target=body, args=(i,), daemon=True) for i in range(2)]
    for t in ths:
        t.start()
    first = plan[0][0] if plan else 0
    bat.locks[first].release()
    bat.main.acquire()
    for t in ths:
        t.join(timeout=10)
    if errors:
        raise RuntimeError(errors[0])
    return results[0], results[1], bat.points


def work(item):
    k0, cfg, seed, thorough = item
    res = dict(key=k0, status="ok", kernels=0, sequences=0, lvm_runs=0, lvm_skipped=0, schedules=0, shared_objects=0, threads_calls=0, failures=[], conformance=0)
    try:
        case = audit.Case(cfg)
    except forms.Inapplicable as e:
        res["status"] = "inapplicable"
        return res
    except Exception as e:
        res["status"] = "rejected"
        res["why"] = f"{type(e).__name__}: {str(e)[:100]}"
        return res
    try:
        rng = np.random.default_rng([seed, 3])
        statics = audit.static_nonconst_objects(case.comp.code[1])
        static_failure = None
        if statics:
            static_failure = dict(kind="static-nonconst", text=f"kernel body declares non-const objects with static storage: {statics[:3]}")
        static_names = set()
        for line in statics:
            m = re.search(r"(\w+)\s*(\[|=|;)", line.split("static", 1)[1].strip().split(" ", 1)[1] if " " in line else line)
            if m:
                static_names.add(m.group(1))
        res["shared_objects"] = len(static_names)
        for k, itype, sid, cap in case.kernels():
            res["kernels"] += 1
            kern = case.comp.kernels[k]
            evs = case.entity_values(itype, kern.domain)
            if not evs:
                continue
            ev_a, ev_b = evs[0], evs[-1]
            ia, ib = case.inputs(itype, rng), case.inputs(itype, rng)
            Ta = case.call_c(k, itype, ia, *ev_a).result()
            Tb = case.call_c(k, itype, ib, *ev_b).result()
            T = {"a": Ta, "b": Tb}
            inp = {"a": (ia, ev_a), "b": (ib, ev_b)}
            nA = ia["nA"]
            scale = max(float(np.max(np.abs(Ta))), float(np.max(np.abs(Tb))))
            if scale < 1e-12:
                scale = 1.0  # a (numerically) zero kernel: judge on an O(1) scale, not relative to rounding noise
            pats = [np.linspace(1.0, 2.0, nA) * scale, np.where(np.arange(nA) % 2 == 0, -3.5, 7.25) * scale]
            # (a) all call sequences of length <= 3
            for P in pats:
                for n in (1, 2, 3):
                    for seq in itertools.product("ab", repeat=n):
                        A = P.copy()
                        exp = P.copy()
                        for s in seq:
                            call = case.call_c(k, itype, inp[s][0], *inp[s][1], A0=A)
                            A = call.result()
                            exp = exp + T[s]
                            br = call.breaches()
                            if br:
                                res["failures"].append(dict(kind="input-or-moat-written", text=f"{itype} kernel {k}: {br} (sequence {''.join(seq)})"))
                                break
                        res["sequences"] += 1
                        err = float(np.max(np.abs(A - exp))) / (scale * 10)
                        if not np.all(np.isfinite(A)) or err > 1e-12:
                            res["failures"].append(dict(kind="not-accumulating", sequence="".join(seq), relerr=err,
                                                        text=f"{itype} kernel {k} id={sid}: after call sequence {''.join(seq)} on pre-filled A the result differs from A0 + sum T by {err:.2e} (relative)"))
                            break
                    if res["failures"]:
                        break
                if res["failures"]:
                    break
            if res["failures"]:
                break
            # (b) LVM write trace + conformance
            prog = None
            if cap is not None:
                prog = lvm.Program(cap.ast, cmplx=case.cmplx)
                try:
                    A_l, tr = case.run_lvm(prog, itype, ia, *ev_a, budget=LVM_CAP)
                except lvm.Budget:
                    prog = None
            if prog is not None:
                res["lvm_runs"] += 1
                if tr.oob:
                    pass  # C08's business
                dev = float(np.max(np.abs(A_l - Ta))) / scale
                if dev > 1e-10:
                    res["failures"].append(dict(kind="harness-conformance", text=f"LVM deviates from the C kernel by {dev:.2e} on kernel {k}"))
                    break
                res["conformance"] += 1
                tA = tr.arr.get("A")
                if tA is not None and (tA[2] > 0 or tA[3] > 0):
                    res["failures"].append(dict(kind="A-read-or-overwritten", text=f"{itype} kernel {k}: A is read {tA[2]} times / plainly assigned {tA[3]} times (only '+=' allowed)"))
                for nm in ("w", "c", "coordinate_dofs", "entity_local_index", "quadrature_permutation"):
                    t = tr.arr.get(nm)
                    if t is not None and (t[3] > 0 or t[4] > 0):
                        res["failures"].append(dict(kind="input-written", text=f"{itype} kernel {k}: input {nm} is written"))
                # (d) schedules over shared (static, non-const) objects
                shared_here = [n for n in prog.static_like if n in static_names]
                if shared_here:
                    seqA = A_l
                    seqB, _ = case.run_lvm(prog, itype, ib, *ev_b)
                    # count points with a dry sequential run under an empty plan
                    _, _, pts = interleave(prog, case, itype, (ia, ib), (ev_a, ev_b), set(shared_here), [])
                    n0, n1 = pts
                    plans = []
                    step0 = max(1, n0 // (400 if thorough else 60))
                    step1 = max(1, n1 // (400 if thorough else 60))
                    for i in range(0, n0, step0):
                        plans.append([(0, i)])
                    for j in range(0, n1, step1):
                        plans.append([(1, j)])
                    if thorough:
                        for i in range(0, n0, max(1, n0 // 30)):
                            for j in range(0, n1, max(1, n1 // 30)):
                                plans.append([(0, i), (1, j)])
                    for plan in plans:
                        r0, r1, _ = interleave(prog, case, itype, (ia, ib), (ev_a, ev_b), set(shared_here), plan)
                        res["schedules"] += 1
                        d = max(float(np.max(np.abs(r0 - seqA))), float(np.max(np.abs(r1 - seqB)))) / scale
                        if d > 1e-10:
                            res["failures"].append(dict(kind="schedule", plan=plan, text=f"{itype} kernel {k}: two invocations interleaved at shared static objects {shared_here[:3]} "
                                                        f"(preemption plan {plan}) differ from the sequential results by {d:.2e}"))
                            break
                else:
                    res["schedules"] += 1  # the single Mazurkiewicz trace: no shared mutable object, nothing to interleave
            else:
                res["lvm_skipped"] += 1
            # (e) free-running threads on the compiled kernel
            nth, ncall = (8, 300) if thorough else (4, 60)
            out = [None] * nth

            def runner(i):
                s = "a" if i % 2 == 0 else "b"
                ok = True
                for _ in range(ncall):
                    r = case.call_c(k, itype, inp[s][0], *inp[s][1]).result()
                    if float(np.max(np.abs(r - T[s]))) > 1e-12 * scale * 10:
                        ok = False
                        break
                out[i] = ok

            ths = [threading.Thread(target=runner, args=(i,)) for i in range(nth)]
            for t in ths:
                t.start()
            for t in ths:
                t.join()
            res["threads_calls"] += nth * ncall
            if not all(out):
                res["failures"].append(dict(kind="threads", text=f"{itype} kernel {k}: concurrent calls from {nth} threads on disjoint A differ from the sequential results"))
            if res["failures"]:
                break
        if static_failure is not None:
            res["failures"].append(static_failure)  # after (d)/(e) so that a schedule counterexample is reported first when one exists
        if res["failures"]:
            res["status"] = "violation"
        return res
    finally:
        case.cleanup()


def work_expr(item):
    """(a) for expression kernels: all call sequences <= 3 over two input sets on pre-filled A."""
    import shutil
    import tempfile

    import ffcx.codegeneration.jit as jit
    import ufl

    from ..runner import scratch_root
    from . import C04

    k0, cfg, seed, thorough = item
    res = dict(key=k0, status="ok", kernels=0, sequences=0, lvm_runs=0, lvm_skipped=0, schedules=0, shared_objects=0, threads_calls=0, failures=[], conformance=0)
    try:
        mesh, e, P, coefs, consts, cdeg, gdim = C04.build(cfg)
    except Exception:
        res["status"] = "inapplicable"
        return res
    cache = tempfile.mkdtemp(prefix="jitx_", dir=scratch_root())
    try:
        try:
            with lvm.capture() as caps:
                (xo,), module, code = jit.compile_expressions([(e, P)], options={"scalar_type": "float64"}, cache_dir=cache)
        except Exception as ex:
            res["status"] = "rejected"
            return res
        res["kernels"] = 1
        statics = audit.static_nonconst_objects(code[1].replace("tabulate_tensor_", "tabulate_tensor_") if code[1] else "")
        cell = cfg["cell"]
        tdim = forms.TDIM[cell]
        rng = np.random.default_rng([seed, 17])
        pos = [xo.original_coefficient_positions[i] for i in range(xo.num_coefficients)]
        oc = ufl.algorithms.extract_coefficients(e)
        ok = ufl.algorithms.analysis.extract_constants(e)
        args = ufl.algorithms.extract_arguments(e)
        ncomp = int(np.prod(e.ufl_shape)) if e.ufl_shape else 1
        ndof = args[0].ufl_function_space().ufl_element().dim if args else 1
        nA = P.shape[0] * ncomp * ndof

        def inputs():
            (inst, X), = engine.geometry_instances(mesh, cell, cfg["geom"], rng, ("aff",))
            wv = np.concatenate([rng.uniform(0.6, 1.4, size=oc[p].ufl_element().dim) for p in pos]) if pos else np.zeros(0)
            cv = np.concatenate([rng.uniform(0.5, 1.5, size=int(np.prod(k.ufl_shape)) if k.ufl_shape else 1) for k in ok]) if ok else np.zeros(0)
            return wv, cv, engine.pack_geometry([X * rng.uniform(0.8, 1.2)])

        facet = P.shape[1] != tdim
        inp = {"a": inputs(), "b": inputs()}
        ev = {"a": (0, 0), "b": ((1, 1) if facet else (0, 0))}

        def call(s, A0):
            wv, cv, X = inp[s]
            c = engine.Call("float64", A0, wv, cv, X, (ev[s][0],), (ev[s][1], 0), null_entity=not facet)
            c.run(xo)
            return c

        T = {s: call(s, np.zeros(nA)).result() for s in "ab"}
        scale = max(float(np.max(np.abs(T["a"]))), float(np.max(np.abs(T["b"]))))
        if scale < 1e-12:
            scale = 1.0
        pats = [np.linspace(1.0, 2.0, nA) * scale, np.where(np.arange(nA) % 2 == 0, -3.5, 7.25) * scale]
        for Pt in pats:
            for n in (1, 2, 3):
                for seq in itertools.product("ab", repeat=n):
                    A = Pt.copy()
                    exp = Pt.copy()
                    for s in seq:
                        c = call(s, A)
                        A = c.result()
                        exp = exp + T[s]
                        if c.breaches():
                            res["failures"].append(dict(kind="input-or-moat-written", text=f"expression kernel: {c.breaches()}"))
                    res["sequences"] += 1
                    err = float(np.max(np.abs(A - exp))) / (scale * 10)
                    if err > 1e-12 or not np.all(np.isfinite(A)):
                        res["failures"].append(dict(kind="not-accumulating", sequence="".join(seq), text=f"expression kernel: after call sequence {''.join(seq)} on pre-filled A "
                                                    f"the result differs from A0 + sum T by {err:.2e} (relative)"))
                        break
                if res["failures"]:
                    break
            if res["failures"]:
                break
        # LVM write trace
        cap = [c for c in caps if c.kind == "expression"]
        if cap and not res["failures"]:
            prog = lvm.Program(cap[0].ast)
            wv, cv, X = inp["a"]
            A = np.zeros(nA)
            try:
                tr = prog.run(A, wv, cv, X, None if not facet else np.array([0]), None if not facet else np.array([0]), trace=lvm.Trace(budget=LVM_CAP))
                res["lvm_runs"] += 1
                if float(np.max(np.abs(A - T["a"]))) / scale > 1e-10:
                    res["failures"].append(dict(kind="harness-conformance", text="LVM deviates from the C expression kernel"))
                else:
                    res["conformance"] += 1
                    tA = tr.arr.get("A")
                    if tA is not None and (tA[2] > 0 or tA[3] > 0):
                        res["failures"].append(dict(kind="A-read-or-overwritten", text=f"expression kernel: A is read {tA[2]} times / plainly assigned {tA[3]} times (only '+=' allowed)"))
            except lvm.Budget:
                res["lvm_skipped"] += 1
        if statics:
            res["failures"].append(dict(kind="static-nonconst", text=f"expression kernel body declares non-const static objects: {statics[:2]}"))
        if res["failures"]:
            res["status"] = "violation"
        return res
    finally:
        shutil.rmtree(cache, ignore_errors=True)


def _dispatch(item):
    if item[0].startswith("expr:"):
        return work_expr(item)
    return work(item)


def expression_items(thorough, seed):
    from . import C04

    nodes, _ = C04.explore(1)
    out = []
    for k, cfg in nodes.items():
        if cfg["scalar"] != "float64":
            continue
        if not thorough and cfg["cell"] not in ("triangle", "tetrahedron", "quadrilateral"):
            continue
        out.append(("expr:" + k, cfg, seed, thorough))
    return out


def main():
    chk = Check(PID)
    nodes, edges = audit.corpus(chk.thorough)
    items = [(k, cfg, chk.seed, chk.thorough) for k, cfg in nodes.items()] + expression_items(chk.thorough, chk.seed)
    items.sort(key=lambda it: it[1]["cell"] in ("tetrahedron", "hexahedron", "prism"), reverse=True)
    tot = dict(configs=len(items), ok=0, inapplicable=0, rejected=0, kernels=0, sequences=0, lvm_runs=0, lvm_skipped=0, schedules=0,
               kernels_with_shared_static=0, threads_calls=0, conformance=0)
    samples = []
    for it, r in pmap(_dispatch, items, desc="C07"):
        for f in ("kernels", "sequences", "lvm_runs", "lvm_skipped", "schedules", "threads_calls", "conformance"):
            tot[f] += r[f]
        if r["shared_objects"]:
            tot["kernels_with_shared_static"] += 1
        if r["status"] in ("ok", "inapplicable", "rejected"):
            tot[r["status"]] += 1
            if r["status"] == "ok" and len(samples) < 5:
                samples.append(dict(config=r["key"], kernels=r["kernels"], call_sequences=r["sequences"], schedules=r["schedules"]))
        else:
            f = r["failures"][0]
            if f["kind"] == "harness-conformance":
                print("HARNESS-ERROR:", r["key"], f["text"])
                raise SystemExit(2)
            chk.violation(f"{PID}:{r['key']}:{f['kind']}", f["text"], recipe=dict(key=it[0], config=it[1], seed=chk.seed, thorough=chk.thorough), observed=r["failures"][:4])
    cov = dict(states=tot["sequences"] + tot["schedules"], transitions=tot["sequences"] * 2 + tot["threads_calls"], traces_validated_against_impl=tot["conformance"],
               evaluations=tot["sequences"], distinct_nontrivial=tot["ok"], totals=tot, samples=samples or [dict(note="none")], exhaustive=True,
               rule=("per kernel of the corpus: all 14 call sequences of length <= 3 over two input sets x 2 pre-fill patterns on persistent A; complete LVM write trace; "
                     "static-storage scan of the C text; all interleavings (preemption bound 1 quick / 2 thorough, at accesses to shared static objects) of two LVM invocations - "
                     "a single trace when no shared mutable object exists; free-running OS threads on the compiled kernel"))
    chk.finish(cov, assumptions=[
        "machine-level interleavings of C are not enumerable: (c)+(d) reduce the question to 'no shared mutable object exists', (e) is a check, not a proof",
        "LVM is bound to the compiled kernel by a conformance run (1e-10) on every kernel it is used on",
    ])


def replay(path):
    doc = json.load(open(path))
    rec = doc["recipe"]
    r = _dispatch((rec.get("key", "replay"), rec["config"], rec.get("seed", 0), rec.get("thorough", False)))
    print(r["status"])
    for f in r["failures"]:
        print("  ", f["text"])
    return 1 if r["status"] == "violation" else 0
