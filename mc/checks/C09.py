"""C09 - all four scalar types compute the same form; complex mode is sesquilinear (DESIGN §4 C09).

Every configuration of the C09 corpus is compiled for float64, float32, complex128 and complex64 (the scalar type is
forced, not deviated) and every kernel is compared with the reference model R: on real data all four must agree with
R within the precision of their type (hence with each other within the narrower precision); on complex data the complex
kernels must equal R evaluated in complex arithmetic with UFL's own conjugate placement.  The corpus contains every
math-table entry reachable from UFL and conj/real/imag/complex constants/literals in every operand position.
"""

from __future__ import annotations

import json

import numpy as np
import ufl

from .. import bcheck, engine, forms, space
from ..runner import Check, pmap

PID = "C09"

MATH = ["sqrt", "abs", "cos", "sin", "tan", "acos", "asin", "atan", "cosh", "sinh", "tanh", "power", "powerint", "exp", "ln", "erf", "atan2",
        "min", "max", "bessel_j", "bessel_y", "real", "imag", "conj", "cliteral", "cconst", "conjarg", "realarg", "clit-in-conj", "clit-in-conj2", "clit-trial", "cconst-in-conj",
        "div-ilit", "div-clit", "ilit-div", "sub-ilit", "neg-ilit", "pow-ilit"]


MIXFN = ["sqrt", "abs", "cos", "sin", "tan", "acos", "asin", "atan", "cosh", "sinh", "tanh", "exp", "ln", "power"]
MIXREAL = ["rek", "geo", "reg"]


def mix_factor(fn, realkind, f, g, k, x):
    """fn applied to a REAL-typed operand and to a complex-typed operand in ONE kernel (the C name differs per operand type: sqrt / csqrt ...)."""
    def wrap(q):
        if fn in ("sqrt", "ln", "power"):
            return 1.5 + q * q
        if fn in ("acos", "asin"):
            return 0.5 * ufl.sin(q)
        if fn == "tan":
            return 0.5 * q
        return q

    F = {"sqrt": ufl.sqrt, "abs": abs, "cos": ufl.cos, "sin": ufl.sin, "tan": ufl.tan, "acos": ufl.acos, "asin": ufl.asin, "atan": ufl.atan, "cosh": ufl.cosh,
         "sinh": ufl.sinh, "tanh": ufl.tanh, "exp": ufl.exp, "ln": ufl.ln, "power": lambda q: q ** 1.5}[fn]
    r = {"rek": ufl.real(k), "geo": x[0] + 0.3, "reg": ufl.real(g)}[realkind]
    return F(wrap(r)) * F(wrap(f)) + 0.5 * F(wrap(0.7 * r))


def math_form(name, cell, arity):
    """A form whose factor applies exactly one math-table entry (arguments stay inside the real domains; complex data has small imaginary parts)."""
    import basix.ufl

    gdim = forms.TDIM[cell]
    mesh = ufl.Mesh(basix.ufl.element("P", cell, 1, shape=(gdim,)))
    V = ufl.FunctionSpace(mesh, basix.ufl.element("P", cell, 1))
    V2 = ufl.FunctionSpace(mesh, basix.ufl.element("P", cell, 2))
    f, g = ufl.Coefficient(V), ufl.Coefficient(V2)
    k = ufl.Constant(mesh)
    u, v = ufl.TrialFunction(V), ufl.TestFunction(V)
    re = ufl.real
    if name.startswith("mix-"):
        _, fn, rk = name.split("-")
        fac = mix_factor(fn, rk, f, g, k, ufl.SpatialCoordinate(mesh))
        core = {2: ufl.inner(u, v), 1: ufl.conj(v), 0: 1.0}[arity]
        return fac * core * ufl.dx, mesh
    s = 0.5 * ufl.sin(f)  # in (-0.5, 0.5)
    fac = {
        "sqrt": lambda: ufl.sqrt(1.0 + f * g), "abs": lambda: abs(f - g), "cos": lambda: ufl.cos(f), "sin": lambda: ufl.sin(f * g), "tan": lambda: ufl.tan(0.5 * f),
        "acos": lambda: ufl.acos(s), "asin": lambda: ufl.asin(s), "atan": lambda: ufl.atan(f), "cosh": lambda: ufl.cosh(f), "sinh": lambda: ufl.sinh(g),
        "tanh": lambda: ufl.tanh(f), "power": lambda: (1.0 + f) ** 1.5, "powerint": lambda: f ** 3, "exp": lambda: ufl.exp(-f * g), "ln": lambda: ufl.ln(1.5 + f),
        "erf": lambda: ufl.erf(re(f)), "atan2": lambda: ufl.atan2(re(f), re(g)), "min": lambda: ufl.min_value(re(f), re(g)), "max": lambda: ufl.max_value(re(f), 1.0),
        "bessel_j": lambda: ufl.bessel_J(2, re(f)), "bessel_y": lambda: ufl.bessel_Y(1, re(g)),
        "real": lambda: ufl.real(f * g) + 2.0, "imag": lambda: ufl.imag(f * (1.0 + 0.5j)) + g if True else g, "conj": lambda: ufl.conj(f) * g,
        # complex literals in every NON-commutative / unary position (a literal printed without its own parentheses changes meaning there)
        "div-ilit": lambda: f / 2.0j + g / (-0.5j), "div-clit": lambda: f / (3.0 + 2.0j), "ilit-div": lambda: 2.0j / (1.5 + f) + (1.0 - 1.0j) / (2.0 + g),
        "sub-ilit": lambda: f - 2.0j - (g - (1.0 + 1.0j)), "neg-ilit": lambda: -(2.0j) * f + (-(1.0 - 3.0j)) * g, "pow-ilit": lambda: (1.0 + f) ** 2 * (2.0j) ** 2 + f,
        "cliteral": lambda: (1.0 + 2.0j) * f, "cconst": lambda: k * ufl.conj(k) + k * f, "conjarg": lambda: f, "realarg": lambda: g,
    }.get(name, lambda: None)()
    if name in ("clit-in-conj", "clit-in-conj2", "clit-trial", "cconst-in-conj"):
        # a complex literal / constant as the only factor of an argument inside (or outside) the conjugated slot of inner()
        lit = {"clit-in-conj": 1j, "clit-in-conj2": (2.0 + 3.0j), "clit-trial": (2.0 - 1.0j), "cconst-in-conj": None}[name]
        if name == "clit-trial":
            core = {2: ufl.inner(lit * u, v), 1: ufl.inner(lit * f, v), 0: ufl.inner(lit * f, g)}[arity]
        elif name == "cconst-in-conj":
            core = {2: ufl.inner(u, k * v), 1: ufl.inner(f, k * v), 0: ufl.inner(f, k * g)}[arity]
        else:
            core = {2: ufl.inner(u, lit * v), 1: ufl.inner(f, lit * v), 0: ufl.inner(f, lit * g)}[arity]
        return core * ufl.dx, mesh
    if name == "conjarg":
        core = {2: ufl.inner(u, v) + ufl.inner(ufl.conj(u) * 0 + u, v), 1: ufl.inner(g, v), 0: ufl.inner(f, g)}[arity]
    elif name == "realarg":
        core = {2: ufl.real(g) * ufl.inner(u, v), 1: ufl.inner(ufl.imag(g * 1j) + g, v), 0: ufl.real(f) * ufl.imag(g * (2.0 + 1.0j))}[arity]
    else:
        core = {2: ufl.inner(u, v), 1: ufl.inner(1.0, v) if False else ufl.conj(v), 0: 1.0}[arity]
    return fac * core * ufl.dx, mesh


def corpus(thorough):
    dims = ["elem", "op", "factor", "wrap", "arity", "geom", "restr"]
    pairs = [("triangle", "dx"), ("triangle", "dS"), ("quadrilateral", "dx"), ("tetrahedron", "ds")]
    if thorough:
        pairs += [("interval", "dx"), ("hexahedron", "dx"), ("tetrahedron", "dx"), ("prism", "ds"), ("triangle", "dP"), ("quadrilateral", "dS")]
    nodes, edges, by = space.explore([space.baseline(c, it) for c, it in pairs], 1, dims=dims)
    return nodes, edges


def work(item):
    kind, key, payload, seed = item
    out = dict(key=key, results={}, status="ok", failures=[], evaluations=0, nontrivial=0)
    if kind == "cfg":
        try:
            B = forms.build(payload)
        except forms.Inapplicable:
            out["status"] = "inapplicable"
            return out
        except Exception as e:
            out["status"] = "inapplicable"
            out["why"] = str(e)[:80]
            return out
        form, mesh, cell, geom = B.form, B.mesh, B.cell, payload.get("geom", "affine")
    else:
        name, cell, arity = payload
        form, mesh = math_form(name, cell, arity)
        geom = "affine"
    statuses = []
    for scalar in engine.SCALARS:
        cm = "complex" in scalar
        modes = [False, True] if cm else [False]
        r = engine.check_form_against_oracle(form, mesh, cell, geom, scalar, None, seed, entity_mode="quick", instances=("aff",), cmplx_data=modes, max_calls=24)
        statuses.append(r["status"])
        out["results"][scalar] = dict(status=r["status"], maxerr=r.get("maxerr"), why=r.get("why"))
        out["evaluations"] += r.get("evaluations", 0)
        out["nontrivial"] += r.get("nontrivial", 0)
        if r["status"] == "violation":
            f = r["failures"][0]
            out["failures"].append(dict(kind=f"{scalar}:{f['kind']}", text=f"[{scalar}] " + f["text"]))
    acc = [s for s in statuses if s in ("ok", "violation")]
    if out["failures"]:
        out["status"] = "violation"
    elif acc and any(v["status"] == "rejected" and not str(v.get("why")).startswith("UFL:") for v in out["results"].values()):
        # accepted for some scalar types, refused by FFCx for others (UFL itself refusing complex literals in real mode is legitimate)
        out["status"] = "violation"
        out["failures"].append(dict(kind="type-dependent-acceptance", text=f"accepted for some scalar types only: { {k: v['status'] + ':' + str(v.get('why'))[:60] for k, v in out['results'].items()} }"))
    elif not acc:
        out["status"] = "rejected"
    return out


def main():
    chk = Check(PID)
    nodes, edges = corpus(chk.thorough)
    items = [("cfg", k, cfg, chk.seed) for k, cfg in nodes.items()]
    cells = ["triangle"] + (["quadrilateral", "tetrahedron"] if chk.thorough else [])
    for name in MATH:
        for cell in cells:
            for ar in (2, 1, 0):
                items.append(("math", f"math:{name}:{cell}:arity{ar}", (name, cell, ar), chk.seed))
    # one math function on a real-typed AND a complex-typed operand inside one kernel: all functions x {piecewise real constant, geometry, real part of a coefficient}
    for fn in MIXFN:
        for rk in MIXREAL:
            for cell in cells[:1] if not chk.thorough else cells:
                for ar in ((1, 0) if not chk.thorough else (2, 1, 0)):
                    items.append(("math", f"math:mix-{fn}-{rk}:{cell}:arity{ar}", (f"mix-{fn}-{rk}", cell, ar), chk.seed))
    tot = dict(items=len(items), ok=0, inapplicable=0, rejected=0, violating=0, kernel_calls=0, nontrivial=0, compiled=0)
    samples, rejected = [], []
    for it, r in pmap(work, items, desc="C09"):
        tot["kernel_calls"] += r["evaluations"]
        if r["status"] == "ok":
            tot["ok"] += 1
            tot["compiled"] += 4
            if r["nontrivial"]:
                tot["nontrivial"] += 1
            if len(samples) < 6 and it[0] == "math":
                samples.append(dict(item=r["key"], max_rel_err={k: v["maxerr"] for k, v in r["results"].items()}))
        elif r["status"] == "violation":
            tot["violating"] += 1
            f = r["failures"][0]
            chk.violation(f"{PID}:{r['key']}:{f['kind']}", f["text"], recipe=dict(kind=it[0], payload=it[2], seed=chk.seed), observed=dict(results=r["results"], failures=r["failures"][:4]))
        elif r["status"] == "rejected":
            tot["rejected"] += 1
            rejected.append((r["key"], {k: str(v.get("why"))[:80] for k, v in r["results"].items()}))
        else:
            tot["inapplicable"] += 1
    cov = dict(states=len(items), transitions=edges + len(items) * 3, traces_validated_against_impl=tot["compiled"], evaluations=tot["kernel_calls"],
               distinct_nontrivial=tot["nontrivial"], totals=tot, rejected=rejected[:30], samples=samples or [dict(note="none")], exhaustive=True,
               rule=("every configuration of the C09 corpus (radius-1 neighbourhoods of 4 [10 thorough] baselines) and every math-table entry x arity x cell, each compiled for all four "
                     "scalar types; real data for all, complex data for the complex types; every kernel call compared with R (1e-10 double, 3e-4 single)"))
    chk.finish(cov, assumptions=["complex data has imaginary parts small enough that principal branches of sqrt/log/acos/pow agree between C99 and numpy",
                                 "reference model R evaluates in complex arithmetic with UFL's own Conj placement (compute_form_data(complex_mode=True))"])


def replay(path):
    doc = json.load(open(path))
    rec = doc["recipe"]
    r = work((rec["kind"], "replay", tuple(rec["payload"]) if rec["kind"] == "math" else rec["payload"], rec.get("seed", 0)))
    print(r["status"], r["results"])
    for f in r["failures"]:
        print("  ", f["text"])
    return 1 if r["status"] == "violation" else 0
