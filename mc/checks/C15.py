"""C15 - a failed or killed JIT build never poisons later requests or the process.

(S) exhaustive exploration on the real compile_forms code: every kill point of the builder, every fault
    position (code generation, each builder step, marker creation), with/without a concurrent waiter,
    followed by all listed sequences of later requests; invariants on every state (mc.sched).
(G) process-global state on the real cffi, sequentially: every failure kind in turn, then a fault-free request.
(K) real-process re-enactment: a real builder process SIGKILLs itself at each of its FS steps / compiler
    spawns; a fresh process then requests with a short timeout.
"""

from __future__ import annotations

import json
import os
import shutil
import subprocess
import sys
import tempfile

from .. import jitconf, sched
from ..runner import NCPU, Check, pmap
from .C14 import report

PID = "C15"
PY = sys.executable


def scenarios(thorough):
    S, P = sched.Scenario, sched.ProcSpec
    out = []
    pb = 2 if thorough else 1
    T = 2
    # --- failures ---
    out.append(S("fail:solo+L1+L2seq", [P("A", "A", T, faultable=True), P("L1", "A", T, after=("A",)), P("L2", "A", T, after=("A", "L1"))],
                 preemptions=0, faults=1))
    out.append(S("fail:+waiter+L1", [P("A", "A", T, faultable=True), P("W", "A", T), P("L1", "A", T, after=("A", "W"))],
                 preemptions=pb, faults=1))
    out.append(S("fail:solo+L1,L2overlap", [P("A", "A", T, faultable=True), P("L1", "A", T, after=("A",)), P("L2", "A", T, after=("A",))],
                 preemptions=pb, faults=1))
    out.append(S("fail-twice:A,L1 fail,L2", [P("A", "A", T, faultable=True), P("L1", "A", T, after=("A",), faultable=True),
                                            P("L2", "A", T, after=("A", "L1"))], preemptions=0, faults=2))
    # the same with an argument-less exception (bare assert / raise NotImplementedError in code generation): e.args is empty
    out.append(S("fail-bare:solo+L1+L2seq", [P("A", "A", T, faultable=True), P("L1", "A", T, after=("A",)), P("L2", "A", T, after=("A", "L1"))],
                 preemptions=0, faults=1, exc_shape="bare"))
    out.append(S("fail-bare-twice:A,L1 fail,L2", [P("A", "A", T, faultable=True), P("L1", "A", T, after=("A",), faultable=True),
                                                 P("L2", "A", T, after=("A", "L1"))], preemptions=0, faults=2, exc_shape="bare"))
    if thorough:
        out.append(S("fail-bare:+waiter+L1", [P("A", "A", T, faultable=True), P("W", "A", T), P("L1", "A", T, after=("A", "W"))],
                     preemptions=pb, faults=1, exc_shape="bare"))
    # --- kills ---
    out.append(S("kill:solo+L1+L2seq", [P("A", "A", T, killable=True), P("L1", "A", T, after=("A",)), P("L2", "A", T, after=("A", "L1"))],
                 preemptions=0, kills=1))
    out.append(S("kill:+waiter+L1", [P("A", "A", T, killable=True), P("W", "A", T), P("L1", "A", T, after=("A", "W"))],
                 preemptions=pb, kills=1))
    out.append(S("kill:solo+L1,L2overlap", [P("A", "A", T, killable=True), P("L1", "A", T, after=("A",)), P("L2", "A", T, after=("A",))],
                 preemptions=pb, kills=1))
    if thorough:
        out.append(S("fail+kill:A fails,L1 killed,L2", [P("A", "A", T, faultable=True), P("L1", "A", T, after=("A",), killable=True),
                                                        P("L2", "A", T, after=("A", "L1"))], preemptions=0, faults=1, kills=1))
        out.append(S("fail:2waiters", [P("A", "A", T, faultable=True), P("W1", "A", T), P("W2", "A", T), P("L1", "A", T, after=("A", "W1", "W2"))],
                     preemptions=1, faults=1))
        out.append(S("kill:2waiters", [P("A", "A", T, killable=True), P("W1", "A", T), P("W2", "A", T), P("L1", "A", T, after=("A", "W1", "W2"))],
                     preemptions=1, kills=1))
        out.append(S("fail:othermodule", [P("A", "A", T, faultable=True), P("B", "B", T), P("L1", "A", T, after=("A", "B")), P("L2", "B", T, after=("A", "B"))],
                     preemptions=1, faults=1))
        out.append(S("kill:any-of-two", [P("A", "A", T, killable=True), P("W", "A", T, killable=True), P("L1", "A", T, after=("A", "W"))],
                     preemptions=1, kills=2))
    return out


# ---------------------------------------------------------------------------------------------------
# (G) process-global state under real cffi
# ---------------------------------------------------------------------------------------------------
_G_SCRIPT = r'''
import sys, os, json, logging, io, shutil, tempfile
import numpy as np, basix.ufl, ufl, cffi
import ffcx.codegeneration.jit as jit
import ffcx.compiler
kind = sys.argv[1]; cache = sys.argv[2]
dom = ufl.Mesh(basix.ufl.element("P", "triangle", 1, shape=(2,)))
V = ufl.FunctionSpace(dom, basix.ufl.element("P", "triangle", 1))
u, v = ufl.TrialFunction(V), ufl.TestFunction(V)
form = u * v * ufl.dx
root = logging.getLogger()
my_handler = logging.StreamHandler(io.StringIO())
root.addHandler(my_handler)
def snap():
    return dict(handlers=[id(h) for h in root.handlers], stdout=id(sys.stdout), stderr=id(sys.stderr), cwd=os.getcwd(),
                env=dict(os.environ), level=root.level)
before = snap()
kw = {}
saved = {}
if kind == "gen":
    saved["cuo"] = ffcx.compiler.compile_ufl_objects
    def boom(*a, **k): raise RuntimeError("injected code generation failure")
    ffcx.compiler.compile_ufl_objects = boom
elif kind == "genbare":
    saved["cuo"] = ffcx.compiler.compile_ufl_objects
    def boom(*a, **k): raise AssertionError()
    ffcx.compiler.compile_ufl_objects = boom
elif kind == "cc":
    os.environ["CC"] = "/bin/false"; before = snap()
elif kind == "badc":
    saved["cuo"] = ffcx.compiler.compile_ufl_objects
    def badc(*a, **k):
        code, suf = saved["cuo"](*a, **k)
        return [code[0], code[1] + "\n#error injected invalid C\n"], suf
    ffcx.compiler.compile_ufl_objects = badc
elif kind == "link":
    saved["libs"] = list(jit._libraries)
    jit._libraries.append("no_such_library_xyz")
elif kind == "marker":
    # marker creation fails: a stale marker without lock (cache cleaned as the timeout message suggests)
    import ffcx.naming, ffcx.options
    p = ffcx.options.get_options({})
    mn = "libffcx_forms_" + ffcx.naming.compute_signature([form], jit._compute_option_signature(p) + jit._compilation_signature([], False))
    open(os.path.join(cache, mn + ".c.cached"), "w").close()
res = {"kind": kind}
try:
    jit.compile_forms([form], cache_dir=cache, timeout=2)
    res["failing_request"] = "returned"
except BaseException as e:
    res["failing_request"] = "raised:" + type(e).__name__
after = snap()
res["diff"] = [k for k in before if before[k] != after[k]]
res["handlers_before"] = len(before["handlers"]); res["handlers_after"] = [type(h).__name__ for h in root.handlers]
res["files_after_failure"] = sorted(f.split(".", 1)[1] for f in os.listdir(cache))
# undo the injection
if "cuo" in saved: ffcx.compiler.compile_ufl_objects = saved["cuo"]
if kind == "cc": del os.environ["CC"]
if kind == "link": jit._libraries[:] = saved["libs"]
if kind == "marker":
    for f in os.listdir(cache):
        if f.endswith(".c.cached"): os.unlink(os.path.join(cache, f))
# restore global state ourselves so that the follow-up is judged independently
root.handlers[:] = [my_handler]
try:
    objs, mod, code = jit.compile_forms([form], cache_dir=cache, timeout=2)
    ffi = cffi.FFI(); k = objs[0].form_integrals[0]
    A = np.zeros(9); w = np.zeros(1); c = np.zeros(1); x = np.array([0,0,0, 1,0,0, 0,1,0], dtype=np.float64)
    k.tabulate_tensor_float64(ffi.cast("double*", A.ctypes.data), ffi.cast("double*", w.ctypes.data), ffi.cast("double*", c.ctypes.data),
        ffi.cast("double*", x.ctypes.data), ffi.NULL, ffi.NULL, ffi.NULL)
    ref = (np.ones((3,3)) + np.eye(3)) / 24.0
    res["next_request"] = "ok" if np.allclose(A.reshape(3,3), ref, atol=1e-14) else "wrong-numbers"
    res["next_built"] = code[0] is not None
except BaseException as e:
    res["next_request"] = "raised:" + type(e).__name__ + ":" + str(e)[:100]
sys.__stdout__.write("RESULT " + json.dumps(res) + "\n"); sys.__stdout__.flush()
'''


def global_state_run(kind):
    base = "/dev/shm" if os.path.isdir("/dev/shm") else None
    d = tempfile.mkdtemp(prefix="jitG_", dir=base)
    try:
        cache = os.path.join(d, "c")
        os.mkdir(cache)
        r = subprocess.run([PY, "-c", _G_SCRIPT, kind, cache], capture_output=True, text=True, timeout=900, cwd=d)
        line = [l for l in r.stdout.splitlines() if l.startswith("RESULT ")]
        if not line:
            return dict(kind=kind, harness_error=(r.stdout + r.stderr)[-800:])
        return json.loads(line[-1][7:])
    finally:
        shutil.rmtree(d, ignore_errors=True)


# ---------------------------------------------------------------------------------------------------
# (K) real processes killed at each step
# ---------------------------------------------------------------------------------------------------
_K_SCRIPT = r'''
import sys, os, signal, builtins, subprocess
cache = sys.argv[1]; kill_at = int(sys.argv[2])
count = [0]
def tick(what):
    if kill_at >= 0 and count[0] == kill_at:
        os.kill(os.getpid(), signal.SIGKILL)
    count[0] += 1
ro, rr, rp = builtins.open, os.rename, os.replace
def vopen(f, mode="r", *a, **k):
    if not isinstance(f, int) and str(f).startswith(cache) and any(c in mode for c in "wxa"): tick("open")
    return ro(f, mode, *a, **k)
def vrename(a, b, *x, **k):
    if str(a).startswith(cache) or str(b).startswith(cache): tick("rename")
    return rr(a, b, *x, **k)
builtins.open = vopen; os.rename = vrename
import io; io.open = vopen
_spawn = subprocess.Popen.__init__
def vinit(self, *a, **k):
    tick("spawn"); return _spawn(self, *a, **k)
subprocess.Popen.__init__ = vinit
try:
    import distutils.spawn  # setuptools' vendored distutils uses subprocess
except Exception:
    pass
import basix.ufl, ufl
import ffcx.codegeneration.jit as jit
dom = ufl.Mesh(basix.ufl.element("P", "triangle", 1, shape=(2,)))
V = ufl.FunctionSpace(dom, basix.ufl.element("P", "triangle", 1))
u, v = ufl.TrialFunction(V), ufl.TestFunction(V)
jit.compile_forms([u * v * ufl.dx], cache_dir=cache, timeout=2)
tick("end")
print("STEPS", count[0])
'''


def kill_run(k):
    base = "/dev/shm" if os.path.isdir("/dev/shm") else None
    d = tempfile.mkdtemp(prefix="jitK_", dir=base)
    try:
        cache = os.path.join(d, "c")
        os.mkdir(cache)
        r = subprocess.run([PY, "-c", _K_SCRIPT, cache, str(k)], capture_output=True, text=True, timeout=900)
        if k < 0:
            return int(r.stdout.split("STEPS")[1].split()[0])
        killed = r.returncode == -9
        files = sorted(f.split(".", 1)[1] for f in os.listdir(cache))
        r2 = subprocess.run([PY, "-c", jitconf._REQ, cache, "2"], capture_output=True, text=True, timeout=900)
        out = json.loads(r2.stdout.strip().splitlines()[-1]) if r2.stdout.strip() else {"crash": r2.returncode, "err": r2.stderr[-300:]}
        return dict(kill_at=k, killed=killed, files_after_kill=files, later=out)
    finally:
        shutil.rmtree(d, ignore_errors=True)


def main():
    chk = Check(PID)
    cov = dict(states=0, transitions=0, executions=0, pruned_revisits=0, scenarios=[], exhaustive=True)
    samples = []
    nclasses = 0
    for sc in scenarios(chk.thorough):
        stats, found, classes, completed = sched.explore_scenario(sc, NCPU)
        for k, kk in (("states", "states"), ("transitions", "transitions"), ("executions", "executions"), ("pruned_revisits", "pruned")):
            cov[k] += stats[kk]
        cov["exhaustive"] = cov["exhaustive"] and completed
        cov["scenarios"].append(dict(name=sc.name, procs=[(p.name, p.module, p.timeout, list(p.after), p.killable, p.faultable) for p in sc.procs],
                                     bounds=dict(preemptions=sc.preemptions, kills=sc.kills, faults=sc.faults),
                                     executions=stats["executions"], states=stats["states"], distinct_outcome_classes=len(classes)))
        nclasses += len(classes)
        for k, (choices, summ) in list(classes.items())[:2]:
            samples.append(dict(scenario=sc.name, schedule_choices=choices, outcome=summ))
        seen_inv = set()
        for rec in found:
            inv = rec["violations"][0][0]
            if inv not in seen_inv:
                seen_inv.add(inv)
                report(chk, rec)
    cov["distinct_outcome_classes"] = nclasses
    # (G)
    kinds = ["gen", "genbare", "cc", "badc", "link", "marker"]
    validated = 0
    gres = []
    for kind, r in pmap(global_state_run, kinds, jobs=len(kinds)):
        gres.append(r)
        validated += 1
        if "harness_error" in r:
            print("HARNESS-ERROR: global-state script failed:", r)
            sys.exit(2)
        if not r["failing_request"].startswith("raised:"):
            chk.violation(f"{PID}:G:{kind}:no-exception", f"injected {kind} failure but the request {r['failing_request']}", recipe=dict(part="G", kind=kind), observed=r)
        # PLAT etc. are set in os.environ by distutils on every build (successful or not): reported, not judged
        r["env_changed_by_distutils"] = "env" in r["diff"]
        r["diff"] = [k for k in r["diff"] if k != "env"]
        if r["diff"]:
            chk.violation(f"{PID}:G:{kind}:global-state:{'+'.join(sorted(r['diff']))}",
                          f"after a failing request ({kind}) process-global state differs: {r['diff']} (root handlers now {r['handlers_after']})",
                          recipe=dict(part="G", kind=kind), observed=r)
        if kind != "marker" and "c" in r["files_after_failure"]:
            chk.violation(f"{PID}:G:{kind}:lock-not-released", "lock file still present after a failed build", recipe=dict(part="G", kind=kind), observed=r)
        if r["next_request"] != "ok" or not r.get("next_built", False):
            chk.violation(f"{PID}:G:{kind}:next-request", f"request after a failed build: {r['next_request']} built={r.get('next_built')}",
                          recipe=dict(part="G", kind=kind), observed=r)
    cov["global_state_runs"] = gres
    # (K)
    nsteps = kill_run(-1)
    kres = []
    for k, r in pmap(kill_run, list(range(nsteps)), jobs=min(NCPU, nsteps)):
        kres.append(r)
        validated += 1
        later = r["later"]
        if not r["killed"]:
            print("HARNESS-ERROR: builder was not killed at step", k)
            sys.exit(2)
        ok = ("exc" in later and later["exc"] == "TimeoutError") or ("A" in later and abs(later["A"][0] - 1 / 12) < 1e-14)
        if not ok:
            chk.violation(f"{PID}:K:kill-at-step-{k}", f"after SIGKILL of the real builder at step {k} a later request gave {later}",
                          recipe=dict(part="K", kill_at=k), observed=r)
    kres.sort(key=lambda r: r["kill_at"])
    cov["real_kill_runs"] = [dict(kill_at=r["kill_at"], files=r["files_after_kill"], later=("TimeoutError" if "exc" in r["later"] else "loaded-complete" if "A" in r["later"] else "other")) for r in kres]
    cov["traces_validated_against_impl"] = validated
    cov["samples"] = samples
    cov["rule"] = ("every kill point of the builder and every fault position within the budgets, crossed with every interleaving (preemption-bounded) "
                   "and the listed later-request sequences, executed on the real compile_forms code")
    chk.finish(cov, assumptions=[
        "kill = the process performs no further step (SIGKILL); fault = the step raises; both only at scheduling points (FS ops, generation, builder steps)",
        "stub builder/loader as in C14 (bound by strace + real runs); real cffi used for the global-state and SIGKILL parts",
    ])


def replay(path):
    doc = json.load(open(path))
    r = doc["recipe"]
    if isinstance(r, dict) and r.get("part") == "G":
        print(global_state_run(r["kind"]))
        return 0
    if isinstance(r, dict) and r.get("part") == "K":
        print(kill_run(r["kill_at"]))
        return 0
    from .C14 import replay as rp

    return rp(path)
