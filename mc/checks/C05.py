"""C05 - coefficient/constant packing contract and enabled_coefficients (DESIGN §4 C05).

Enumerated: forms with 3-4 coefficients (different dimensions) and up to 3 constants, over 1-3 integrals of different
type/id, every integral using every non-empty subset pattern of the coefficients (all assignments of patterns to
integrals); forms in which differentiation or cancellation removes a coefficient; constants unused by an integral.
Per compiled kernel every coefficient flagged disabled is NaN-poisoned; data is packed through
original_coefficient_positions / the original constant order; the result must equal R evaluated with data keyed by
the original UFL objects.  original_coefficient_positions / counts are compared with UFL's own form data.
"""

from __future__ import annotations

import itertools
import json

import basix.ufl
import numpy as np
import ufl

from .. import engine, oracle
from ..runner import Check, pmap

PID = "C05"


def spaces(cell, gdim):
    mesh = ufl.Mesh(basix.ufl.element("P", cell, 1, shape=(gdim,)))
    el = basix.ufl.element
    V = {
        "P2": ufl.FunctionSpace(mesh, el("P", cell, 2)),
        "P1": ufl.FunctionSpace(mesh, el("P", cell, 1)),
        "DG0": ufl.FunctionSpace(mesh, el("DG", cell, 0)),
        # the vector-valued coefficient lives in a MIXED space (vector P2 x P1): sub-element offsets inside w, also under '-' restrictions
        "vP1": ufl.FunctionSpace(mesh, basix.ufl.mixed_element([el("P", cell, 2, shape=(gdim,)), el("P", cell, 1)])),
        "DG1": ufl.FunctionSpace(mesh, el("DG", cell, 1)),
    }
    return mesh, V


MEASURES = {
    "dx1": lambda m: ufl.dx(1, domain=m), "dx2": lambda m: ufl.dx(2, domain=m), "dx": lambda m: ufl.dx(domain=m),
    "ds1": lambda m: ufl.ds(1, domain=m), "dS": lambda m: ufl.dS(domain=m), "dS4": lambda m: ufl.dS(4, domain=m),
    "dP": lambda m: ufl.dP(domain=m),
    # several quadrature rules inside ONE integral group (same type and id): the kernel's enabled flags are the union over its rules
    "dxq2": lambda m: ufl.dx(domain=m, metadata={"quadrature_degree": 2}), "dxq4": lambda m: ufl.dx(domain=m, metadata={"quadrature_degree": 4}),
    "dxq1": lambda m: ufl.dx(domain=m, metadata={"quadrature_degree": 1}),
    "dS4q1": lambda m: ufl.dS(4, domain=m, metadata={"quadrature_degree": 1}), "dS4q3": lambda m: ufl.dS(4, domain=m, metadata={"quadrature_degree": 3}),
    "ds1q2": lambda m: ufl.ds(1, domain=m, metadata={"quadrature_degree": 2}), "ds1q5": lambda m: ufl.ds(1, domain=m, metadata={"quadrature_degree": 5}),
}


def build(rec):
    """rec: dict(cell, kind, measures=[..], patterns=[[..coefficient indices..]..], arity, consts=[..])"""
    cell = rec["cell"]
    gdim = oracle.TDIM[cell]
    mesh, V = spaces(cell, gdim)
    # coefficients created in a fixed order (their count() order = original order in the form)
    cs = [ufl.Coefficient(V["P2"]), ufl.Coefficient(V["P1"]), ufl.Coefficient(V["DG0"]), ufl.Coefficient(V["vP1"])]
    k0, k1, k2 = ufl.Constant(mesh), ufl.Constant(mesh, shape=(gdim,)), ufl.Constant(mesh, shape=(gdim, gdim))
    k3 = ufl.Constant(mesh, shape=(gdim + 1, gdim))  # non-square: flattened row-major, its last entry is c[offset + (gdim+1)*gdim - 1]
    consts = [k0, k1, k2, k3]
    arity = rec.get("arity", 1)
    tspace = V["P1"] if "dP" in rec.get("measures", []) else V["DG1"]
    v = ufl.TestFunction(tspace)
    u = ufl.TrialFunction(tspace)

    def scal(i, side):
        c = cs[i]
        c = c(side) if side else c
        return ufl.inner(c, c) if i == 3 else c

    def cscal(j):
        return [k0, ufl.inner(k1, k1), ufl.inner(k2, ufl.Identity(gdim)) + k2[0, gdim - 1], k3[gdim, 0] + k3[1, gdim - 1] * k3[gdim, gdim - 1]][j]

    kind = rec.get("kind", "patterns")
    if kind == "patterns":
        form = None
        for mi, (mname, pat) in enumerate(zip(rec["measures"], rec["patterns"])):
            side = "+" if mname.startswith("dS") else None
            other = "-" if side else None
            fac = 1.0
            for n, i in enumerate(pat):
                fac = fac * scal(i, side if n % 2 == 0 else other)
            cuse = rec.get("consts", [[]] * len(rec["measures"]))[mi]
            for j in cuse:
                fac = fac * (1.0 + cscal(j))
            if mname == "dP" and any(i == 2 for i in pat):
                raise ValueError("DG0 coefficient in vertex integral")
            vv, uu = v, u
            core = {0: 1.0, 1: (vv(side) if side else vv), 2: ((uu(other) * vv(side)) if side else uu * vv)}[arity]
            term = (float(mi + 2) * fac * core) * MEASURES[mname](mesh)
            form = term if form is None else form + term
        return form, mesh, cell
    if kind == "derivative":
        # F is linear in cs[1] -> its Gateaux derivative no longer contains cs[1]; cs[0], cs[2] remain
        F = cs[0] * cs[1] * cs[2] * v * ufl.dx(domain=mesh) + cs[1] * scal(3, None) * v * ufl.ds(domain=mesh)
        du = ufl.TrialFunction(V["P1"])
        return ufl.derivative(F, cs[1], du), mesh, cell
    if kind == "derivative2":
        # nonlinear in cs[0]; derivative w.r.t. cs[2] (DG0) removes it
        F = ufl.sin(cs[0]) * cs[2] * v * ufl.dx(domain=mesh) + cs[3][0] * cs[2] * v * ufl.dx(1, domain=mesh)
        du = ufl.TrialFunction(V["DG0"])
        return ufl.derivative(F, cs[2], du), mesh, cell
    if kind == "cancel":
        return (cs[0] * v * ufl.dx(domain=mesh) - cs[0] * v * ufl.dx(domain=mesh) + cs[2] * k1[0] * v * ufl.dx(domain=mesh)
                + cs[1] * v * ufl.ds(domain=mesh)), mesh, cell
    if kind == "zero-factor":
        return (0 * cs[0] * v * ufl.dx(domain=mesh) + cs[3][gdim - 1] * k2[gdim - 1, 0] * v * ufl.dx(domain=mesh)), mesh, cell
    if kind == "deriv-const-first":
        # the first constant lives only in a term that differentiation removes; later constants survive
        v1 = ufl.TestFunction(V["P1"])
        F = k0 * v1 * ufl.dx(domain=mesh) + ufl.inner(k2 * ufl.grad(cs[1]), ufl.grad(v1)) * ufl.dx(domain=mesh) + k1[gdim - 1] * cs[1] ** 2 * v1 * ufl.ds(domain=mesh)
        return ufl.derivative(F, cs[1], ufl.TrialFunction(V["P1"])), mesh, cell
    if kind == "deriv-const-middle":
        v1 = ufl.TestFunction(V["P1"])
        F = k0 * cs[1] ** 2 * v1 * ufl.dx(domain=mesh) + ufl.inner(k1, k1) * v1 * ufl.dx(domain=mesh) + k2[0, gdim - 1] * cs[1] * cs[0] * v1 * ufl.dx(domain=mesh)
        return ufl.derivative(F, cs[1], ufl.TrialFunction(V["P1"])), mesh, cell
    if kind == "cancel-const":
        return (k0 * v * ufl.dx(domain=mesh) - k0 * v * ufl.dx(domain=mesh) + k1[gdim - 1] * cs[1] * v * ufl.dx(domain=mesh) + k2[gdim - 1, 0] * v * ufl.ds(domain=mesh)), mesh, cell
    if kind == "zero-const":
        return (0 * k1[0] * v * ufl.dx(domain=mesh) + k2[gdim - 1, 0] * cs[0] * v * ufl.dx(domain=mesh)), mesh, cell
    if kind == "consts-only-last":
        return (cs[1] * k2[0, 0] * v * ufl.dx(domain=mesh) + k1[gdim - 1] * v * ufl.ds(domain=mesh)), mesh, cell
    raise KeyError(kind)


def enumerate_recipes(thorough):
    out = []
    subsets = [list(s) for r in (1, 2, 3) for s in itertools.combinations(range(3), r)]  # 7 patterns over 3 coefficients
    subsets4 = [list(s) for r in (1, 2, 3, 4) for s in itertools.combinations(range(4), r)]
    cells = ["triangle"] + (["tetrahedron", "quadrilateral", "interval"] if thorough else ["quadrilateral"])
    for cell in cells:
        # one integral, 15 patterns over 4 coefficients
        for m in ("dx", "dS", "ds1"):
            for p in subsets4:
                out.append(dict(cell=cell, measures=[m], patterns=[p], arity=1))
        # two integrals: all pairs of patterns
        combos = [("dx1", "dx2"), ("dx", "dS"), ("ds1", "dS4"), ("dxq2", "dxq4"), ("dS4q3", "dS4q1")] + ([("dx1", "dx"), ("dS", "dS4"), ("dx", "ds1"), ("dxq4", "dxq1"), ("ds1q2", "ds1q5")] if thorough else [])
        if cell != "triangle" and not thorough:
            combos = [combos[0], combos[3]]
        for ms in combos:
            for p, q in itertools.product(subsets, repeat=2):
                out.append(dict(cell=cell, measures=list(ms), patterns=[p, q], arity=1))
        # arity 0 / 2 variants and constants usage patterns on a covering subset
        for ar in (0, 2):
            for p, q in [([0], [1]), ([1], [0, 2]), ([2], [2]), ([0, 1, 2], [1])]:
                out.append(dict(cell=cell, measures=["dx1", "dS"], patterns=[p, q], arity=ar))
        for cu in itertools.product([[], [0], [1], [2], [0, 2], [2, 1], [3], [3, 1]], repeat=2):
            out.append(dict(cell=cell, measures=["dx", "ds1"], patterns=[[1], [0]], arity=1, consts=[list(cu[0]), list(cu[1])]))
        for kind in ("derivative", "derivative2", "cancel", "zero-factor", "consts-only-last", "deriv-const-first", "deriv-const-middle", "cancel-const", "zero-const"):
            out.append(dict(cell=cell, kind=kind))
        if cell in ("triangle", "interval"):
            for p in ([0], [1], [0, 1], [3], [1, 3]):
                out.append(dict(cell=cell, measures=["dx", "dP"], patterns=[[2], p], arity=1))
    # three rules in one group (each coefficient of the triple used by exactly one / two of them) + a rule shared with another group
    for p, q, r in itertools.product([[0], [1], [2], [0, 1], [1, 2]], repeat=3) if thorough else [([0], [1], [2]), ([2], [0], [1]), ([1], [2], [0]), ([0, 1], [2], [1]), ([2], [1, 2], [0])]:
        out.append(dict(cell="triangle", measures=["dxq1", "dxq2", "dxq4"], patterns=[p, q, r], arity=1))
        out.append(dict(cell="triangle", measures=["dxq2", "ds1q2", "dxq4"], patterns=[p, q, r], arity=1))
    if thorough:
        # three integrals: all triples of patterns on the triangle
        for p, q, r in itertools.product(subsets, repeat=3):
            out.append(dict(cell="triangle", measures=["dx1", "ds1", "dS"], patterns=[p, q, r], arity=1))
    return out


def key(rec):
    if rec.get("kind"):
        return f"{rec['cell']}:{rec['kind']}"
    s = f"{rec['cell']}:a{rec.get('arity', 1)}:" + "+".join(f"{m}[{''.join(map(str, p))}]" for m, p in zip(rec["measures"], rec["patterns"]))
    if rec.get("consts"):
        s += ":c" + "|".join("".join(map(str, c)) for c in rec["consts"])
    return s


def work(item):
    rec, seed = item
    form, mesh, cell = build(rec)
    r = engine.check_form_against_oracle(form, mesh, cell, "affine", "float64", None, seed, entity_mode="quick", instances=("aff",),
                                         poison=True, check_positions=True)
    # how many (kernel, coefficient) flags were false, i.e. how many poisonings happened
    return r


def main():
    chk = Check(PID)
    recs = enumerate_recipes(chk.thorough)
    items = [(r, chk.seed) for r in recs]
    counts = dict(forms=len(items), ok=0, rejected=0, violating=0, kernel_calls=0, nontrivial=0)
    samples = []
    rejected = []
    for it, r in pmap(work, items, desc="C05"):
        rec = it[0]
        counts["kernel_calls"] += r.get("evaluations", 0)
        if r["status"] == "ok":
            counts["ok"] += 1
            if r.get("nontrivial", 0):
                counts["nontrivial"] += 1
            if len(samples) < 6:
                samples.append(dict(form=key(rec), kernel_calls=r["evaluations"], max_rel_err=r["maxerr"]))
        elif r["status"] == "violation":
            counts["violating"] += 1
            f = r["failures"][0]
            chk.violation(f"{PID}:{key(rec)}:{f['kind']}", f["text"], recipe=dict(rec=rec, seed=chk.seed), observed=r["failures"][:4])
        else:
            counts["rejected"] += 1
            rejected.append((key(rec), r["status"], r.get("why", "")[:160]))
    cov = dict(states=len(items), transitions=counts["kernel_calls"], traces_validated_against_impl=counts["ok"] + counts["violating"],
               evaluations=counts["kernel_calls"], distinct_nontrivial=counts["nontrivial"], counts=counts, rejected=rejected[:30],
               samples=samples, exhaustive=True,
               rule=("all assignments of non-empty coefficient-subset patterns (3 coefficients: 7 patterns; single integrals: 15 patterns over 4) to 1-2 (quick) / 1-3 (thorough) "
                     "integrals of different type/id and to 2-3 integrals with different quadrature rules inside one (type, id) group, constants-usage pairs, derivative/cancellation forms; every disabled coefficient NaN-poisoned per kernel; every local facet "
                     "and code pair as in C02 quick mode; non-trivial = reference tensor not identically zero"))
    chk.finish(cov, assumptions=["NaN poisoning detects every read that can reach A (a dead read of a disabled coefficient is not observable)",
                                 "reference model R keyed by the original UFL coefficient/constant objects"])


def replay(path):
    doc = json.load(open(path))
    r = work((doc["recipe"]["rec"], doc["recipe"].get("seed", 0)))
    print(r["status"], r.get("why", ""))
    for f in r["failures"]:
        print("  ", f["text"])
    return 1 if r["status"] == "violation" else 0
