"""C02 - facet and vertex kernels integrate over the indicated local entity: deviation graph around the ds/dS/dP
baselines; per node every local entity (every ordered facet pair for dS) and the permutation-code pairs, compared with R
which implements the macro layout from ufcx.h (DESIGN §4 C02)."""

from .. import bcheck, space
from ..runner import Check

PID = "C02"


def gauss_anchor(item):
    """Kernel-only identity tying facet kernels to cell kernels, independent of R:
    sum over all local facets of  int_f u n_i ds  ==  int_K d_i u dx   (u in P2, every component i, several geometry classes)."""
    import basix.ufl
    import numpy as np
    import ufl

    from .. import engine, forms, oracle

    cell, geom, seed = item
    res = dict(key=f"gauss:{cell}:{geom}", status="ok", calls=0, maxdev=0.0, failures=[])
    try:
        mesh, gdim, cdeg = forms.make_mesh(cell, geom)
    except forms.Inapplicable:
        res["status"] = "inapplicable"
        return res
    td = oracle.TDIM[cell]
    V = ufl.FunctionSpace(mesh, basix.ufl.element("P", cell, 2))
    u = ufl.Coefficient(V)
    n = ufl.FacetNormal(mesh)
    md = {"quadrature_degree": 10}
    rng = np.random.default_rng([seed, 31])
    for i in range(gdim):
        Fb = u * n[i] * ufl.ds(domain=mesh, metadata=md)
        Fc = u.dx(i) * ufl.dx(domain=mesh, metadata=md)
        try:
            cb, cc = engine.Compiled(Fb, "float64"), engine.Compiled(Fc, "float64")
        except Exception as e:
            res["status"] = "rejected"
            res["why"] = f"{type(e).__name__}: {str(e)[:100]}"
            return res
        try:
            for inst, X in engine.geometry_instances(mesh, cell, geom, rng, ("aff", "rev")):
                w = rng.uniform(0.5, 1.5, size=V.ufl_element().dim)
                X3 = engine.pack_geometry([X])
                call = engine.Call("float64", np.zeros(1), w, np.zeros(0), X3, (0,), (0, 0), null_entity=True)
                call.run(cc.kernels[cc.kernels_for("cell", -1)[0]])
                vol = call.result()[0]
                tot = 0.0
                for f in range(oracle.num_entities(cell, td - 1)):
                    ecell = oracle.entity_cellname(cell, td - 1, f) if td > 1 else "point"
                    tag = 0 if ecell == "point" else int(oracle.celltype(ecell))
                    ks = [k for k in cb.kernels_for("exterior_facet", -1) if cb.kernels[k].domain == tag]
                    c2 = engine.Call("float64", np.zeros(1), w, np.zeros(0), X3, (f,), (0, 0))
                    for k in ks:
                        c2.run(cb.kernels[k])
                    tot += c2.result()[0]
                    res["calls"] += 1
                dev = abs(tot - vol) / max(abs(vol), 1e-3)
                res["maxdev"] = max(res["maxdev"], dev)
                if dev > 1e-10:
                    res["failures"].append(dict(kind="gauss", text=f"{cell}/{geom}/{inst}, component {i}: sum over facets of int u n_{i} ds = {tot!r} but int d_{i} u dx = {vol!r}"))
        finally:
            cb.cleanup()
            cc.cleanup()
    if res["failures"]:
        res["status"] = "violation"
    return res


def main():
    chk = Check(PID)
    radius = 2 if chk.thorough else 1
    bases = []
    for c in space.CELLS:
        for it in ("ds", "dS", "dP"):
            if c == "prism" and it == "dS":
                continue
            bases.append(space.baseline(c, it))
    if chk.thorough:
        # radius 2 around the eight cheaper baselines, radius 1 around the others (the full radius-2 graph has 35 000 nodes x full code products)
        deep = {("triangle", "ds"), ("triangle", "dS"), ("triangle", "dP"), ("tetrahedron", "ds"), ("tetrahedron", "dS"), ("quadrilateral", "dS"), ("prism", "ds"), ("interval", "dS")}
        nodes, edges, by = space.explore([b for b in bases if (b["cell"], b["itype"]) in deep], 2)
        n1, e1, by1 = space.explore([b for b in bases if (b["cell"], b["itype"]) not in deep], 1)
        nodes.update(n1)
        edges += e1
        for k, v in by1.items():
            by[k] = by.get(k, 0) + v
    else:
        nodes, edges, by = space.explore(bases, radius)
    mode = "full-light" if chk.thorough else "quick"
    inst = ("aff", "rev") if chk.thorough else ("aff",)
    counts, samples, rejected, unsupported = bcheck.run_configs(chk, nodes, kw=dict(entity_mode=mode, instances=inst), desc="C02")
    from ..runner import pmap as _pmap

    gauss_items = [(c, g, chk.seed) for c in space.CELLS if c != "prism" for g in ("affine", "general", "p2", "manifold")]
    gauss = dict(cases=0, calls=0, maxdev=0.0)
    for it, r in _pmap(gauss_anchor, gauss_items, desc="C02-gauss"):
        if r["status"] == "ok":
            gauss["cases"] += 1
            gauss["calls"] += r["calls"]
            gauss["maxdev"] = max(gauss["maxdev"], r["maxdev"])
        elif r["status"] == "violation":
            chk.violation(f"{PID}:{r['key']}:gauss", r["failures"][0]["text"], recipe=dict(kind="gauss", item=list(it)), observed=r["failures"][:3])
    cov = dict(
        gauss_theorem_anchor=gauss,
        states=len(nodes), transitions=edges, traces_validated_against_impl=counts["ok"] + counts["violating"],
        evaluations=counts["kernel_calls"], distinct_nontrivial=counts["nontrivial_configs"],
        radius=radius, nodes_by_distance=by, counts=counts, entity_mode=mode,
        rejected_by_ffcx=rejected[:40], oracle_unsupported=unsupported[:40], samples=samples or [dict(note="none")], exhaustive=True,
        rule=("nodes = configurations within Hamming radius d of the ds/dS/dP baselines of each cell; per node every local entity index "
              "(every ordered pair of equal-type facets for dS) x permutation codes (quick: full code product in 1D/2D; in 3D every ordered facet pair under two code pairs and the "
              "full code product on one facet pair; thorough: full product everywhere) x 1 (quick) / 2 (thorough) geometry instances with an independent second cell; non-trivial = reference tensor not identically zero"),
    )
    chk.finish(cov, assumptions=[
        "permutation codes follow the convention written in mc/oracle.py (N/2 rotations then N%2 reflections, from ufcx.h); C03 ties it to physical coincidence",
        "continuous inputs from the finite alphabet; '-' cell geometry independent of '+'",
    ])


def replay(path):
    import json

    doc = json.load(open(path))
    if doc["recipe"].get("kind") == "gauss":
        r = gauss_anchor(tuple(doc["recipe"]["item"]))
        print(r)
        return 1 if r["status"] == "violation" else 0
    return bcheck.replay_config(path)
