"""C02 - facet and vertex kernels integrate over the indicated local entity: deviation graph around the ds/dS/dP
baselines; per node every local entity (every ordered facet pair for dS) and the permutation-code pairs, compared with R
which implements the macro layout from ufcx.h (DESIGN §4 C02)."""

from .. import bcheck, space
from ..runner import Check

PID = "C02"


def main():
    chk = Check(PID)
    radius = 2 if chk.thorough else 1
    bases = []
    for c in space.CELLS:
        for it in ("ds", "dS", "dP"):
            if c == "prism" and it == "dS":
                continue
            bases.append(space.baseline(c, it))
    # facet baselines use DG1 so that '+'/'-' blocks are not coupled by continuity assumptions
    nodes, edges, by = space.explore(bases, radius)
    mode = "full" if chk.thorough else "quick"
    inst = ("aff", "rev") if chk.thorough else ("aff",)
    counts, samples, rejected, unsupported = bcheck.run_configs(chk, nodes, kw=dict(entity_mode=mode, instances=inst), desc="C02")
    cov = dict(
        states=len(nodes), transitions=edges, traces_validated_against_impl=counts["ok"] + counts["violating"],
        evaluations=counts["kernel_calls"], distinct_nontrivial=counts["nontrivial_configs"],
        radius=radius, nodes_by_distance=by, counts=counts, entity_mode=mode,
        rejected_by_ffcx=rejected[:40], oracle_unsupported=unsupported[:40], samples=samples or [dict(note="none")], exhaustive=True,
        rule=("nodes = configurations within Hamming radius d of the ds/dS/dP baselines of each cell; per node every local entity index "
              "(every ordered pair of equal-type facets for dS) x permutation codes (quick: full code product in 1D/2D; in 3D every ordered facet pair under two code pairs and the "
              "full code product on one facet pair; thorough: full product everywhere) x 1 (quick) / 2 (thorough) geometry instances with an independent second cell; non-trivial = reference tensor not identically zero"),
    )
    chk.finish(cov, assumptions=[
        "permutation codes follow the convention written in mc/oracle.py (N/2 rotations then N%2 reflections, from ufcx.h); C03 ties it to physical coincidence",
        "continuous inputs from the finite alphabet; '-' cell geometry independent of '+'",
    ])


def replay(path):
    return bcheck.replay_config(path)
