"""Evaluate a check against a property-breaking patch.

   /venv/bin/python -m mc.mutate <Cxx> <patch.diff>... [--tier quick] [--in-repo]

Default: the patch is applied in a scratch git worktree of /repo (under /tmp, removed afterwards) and the check is
run with PYTHONPATH/FFCX_REPO pointing at it and evidence/replays redirected to a scratch directory, so /repo, /verif/evidence
and /verif/replays are untouched and several mutants can be evaluated in parallel.
--in-repo: apply to /repo itself (git apply), run, `git checkout -- .` (the procedure of the brief)."""
import json
import os
import shutil
import subprocess
import sys
import tempfile
import time

REPO = "/repo"
VERIF = os.path.dirname(os.path.dirname(os.path.abspath(__file__)))


def run(pid, patch, tier="quick", timeout=7200, in_repo=False):
    patch = os.path.abspath(patch)
    out = tempfile.mkdtemp(prefix=f"mut_{pid}_out_")
    env = dict(os.environ, VERIF_TIER=tier, VERIF_OUT=out)
    t0 = time.time()
    if in_repo:
        st = subprocess.run(["git", "-C", REPO, "status", "--porcelain", "--untracked-files=no"], capture_output=True, text=True).stdout
        if st.strip():
            raise SystemExit("refusing: /repo has tracked modifications:\n" + st)
        a = subprocess.run(["git", "-C", REPO, "apply", patch], capture_output=True, text=True)
        if a.returncode:
            raise SystemExit("patch does not apply: " + a.stderr)
        try:
            r = subprocess.run([os.path.join(VERIF, "check"), pid], capture_output=True, text=True, timeout=timeout, env=env)
        finally:
            subprocess.run(["git", "-C", REPO, "checkout", "--", "."], check=True)
    else:
        wt = tempfile.mkdtemp(prefix=f"mut_{pid}_wt_")
        os.rmdir(wt)
        subprocess.run(["git", "-C", REPO, "worktree", "add", "--detach", wt, "HEAD"], capture_output=True, check=True)
        try:
            a = subprocess.run(["git", "-C", wt, "apply", patch], capture_output=True, text=True)
            if a.returncode:
                a = subprocess.run(["git", "-C", wt, "apply", "--3way", patch], capture_output=True, text=True)
            if a.returncode:
                raise SystemExit("patch does not apply: " + a.stderr)
            env["PYTHONPATH"] = wt
            env["FFCX_REPO"] = wt
            r = subprocess.run([os.path.join(VERIF, "check"), pid], capture_output=True, text=True, timeout=timeout, env=env)
        finally:
            subprocess.run(["git", "-C", REPO, "worktree", "remove", "--force", wt], capture_output=True)
            subprocess.run(["git", "-C", REPO, "worktree", "prune"], capture_output=True)
    shutil.rmtree(out, ignore_errors=True)
    lines = [l for l in r.stdout.splitlines() if l.startswith("VIOLATION") or l.startswith("  key=")]
    bad = r.returncode not in (0, 1)
    return dict(check=pid, patch=os.path.basename(os.path.dirname(patch)) + "/" + os.path.basename(patch), exit=r.returncode,
                detected=r.returncode == 1 and any(l.startswith("VIOLATION") for l in lines),
                wall_s=round(time.time() - t0, 1), lines=lines[:8], tail=r.stdout[-800:] if bad else "", err=r.stderr[-800:] if bad else "")


if __name__ == "__main__":
    tier = "quick"
    argv = sys.argv[1:]
    in_repo = "--in-repo" in argv
    if "--tier" in argv:
        tier = argv[argv.index("--tier") + 1]
        argv.remove(tier)
    args = [a for a in argv if not a.startswith("--")]
    pid, patches = args[0], args[1:]
    for p in patches:
        print(json.dumps(run(pid, p, tier, in_repo=in_repo), indent=1))
