"""Apply a property-breaking patch to /repo, run a check, revert. Usage:
   /venv/bin/python -m mc.mutate <Cxx> <patch.diff> [--tier quick]   (never leaves /repo modified)"""
import json
import os
import subprocess
import sys
import time

REPO = "/repo"
VERIF = os.path.dirname(os.path.dirname(os.path.abspath(__file__)))


def run(pid, patch, tier="quick", timeout=3600):
    st = subprocess.run(["git", "-C", REPO, "status", "--porcelain", "--untracked-files=no"], capture_output=True, text=True).stdout
    if st.strip():
        raise SystemExit("refusing: /repo has tracked modifications:\n" + st)
    a = subprocess.run(["git", "-C", REPO, "apply", os.path.abspath(patch)], capture_output=True, text=True)
    if a.returncode:
        raise SystemExit("patch does not apply: " + a.stderr)
    ev = os.path.join(VERIF, "evidence", f"{pid}.json")
    saved = open(ev).read() if os.path.exists(ev) else None
    t0 = time.time()
    try:
        env = dict(os.environ, VERIF_TIER=tier)
        r = subprocess.run([os.path.join(VERIF, "check"), pid], capture_output=True, text=True, timeout=timeout, env=env)
    finally:
        subprocess.run(["git", "-C", REPO, "checkout", "--", "."], check=True)
        if saved is not None:
            open(ev, "w").write(saved)
    lines = [l for l in r.stdout.splitlines() if l.startswith("VIOLATION") or l.startswith("  key=")]
    return dict(check=pid, patch=os.path.basename(patch), exit=r.returncode, detected=r.returncode == 1 and any(l.startswith("VIOLATION") for l in lines),
                wall_s=round(time.time() - t0, 1), lines=lines[:8], tail=r.stdout[-600:] if r.returncode not in (0, 1) else "", err=r.stderr[-600:] if r.returncode not in (0, 1) else "")


if __name__ == "__main__":
    tier = "quick"
    args = [a for a in sys.argv[1:] if not a.startswith("--")]
    if "--tier" in sys.argv:
        tier = sys.argv[sys.argv.index("--tier") + 1]
        args.remove(tier)
    pid, patches = args[0], args[1:]
    for p in patches:
        res = run(pid, p, tier)
        print(json.dumps(res, indent=1))
