"""./check <id> [--tier quick|thorough] [--replay <file>]"""
import argparse
import importlib
import os
import sys


def main():
    ap = argparse.ArgumentParser()
    ap.add_argument("pid")
    ap.add_argument("--tier", choices=["quick", "thorough"])
    ap.add_argument("--replay")
    ap.add_argument("--seed", type=int)
    a = ap.parse_args()
    if a.tier:
        os.environ["VERIF_TIER"] = a.tier
    if a.seed is not None:
        os.environ["VERIF_SEED"] = str(a.seed)
    try:
        mod = importlib.import_module(f"mc.checks.{a.pid}")
    except ModuleNotFoundError as e:
        print(f"HARNESS-ERROR: no check for {a.pid}: {e}")
        sys.exit(2)
    if a.replay:
        sys.exit(mod.replay(a.replay))
    try:
        mod.main()
    except SystemExit:
        raise
    except BaseException:
        import traceback

        traceback.print_exc()
        print(f"HARNESS-ERROR: check {a.pid} crashed")
        sys.exit(2)


if __name__ == "__main__":
    main()
