"""Confirm a seeded change delivered in /tmp/seed_out/<id> and file it under /verif/seeded/<id>.

  /venv/bin/python -m mc.seedcheck <id> [--check Cxx ...] [--no-tests]

Steps (all in a scratch worktree outside /repo and /verif, removed afterwards):
  1. patch applies to /repo HEAD;  2. demo fails with the change;  3. demo passes without it;
  4. the repository's test suite still passes with the change (only the baseline failure test_cmdline_simple);
then, if --check is given, run those checks against the change applied to /repo (mc.mutate) and record the outcome.
"""
import json
import os
import shutil
import subprocess
import sys
import time

VERIF = os.path.dirname(os.path.dirname(os.path.abspath(__file__)))
PY = "/venv/bin/python"


def sh(cmd, **kw):
    return subprocess.run(cmd, shell=isinstance(cmd, str), capture_output=True, text=True, **kw)


def run_demo(demo, pythonpath, cwd):
    env = dict(os.environ)
    env.pop("PYTHONPATH", None)
    if pythonpath:
        env["PYTHONPATH"] = pythonpath
    if os.path.basename(demo).startswith("test_"):
        cmd = [PY, "-m", "pytest", "-q", "-p", "no:cacheprovider", "-x", demo]
    else:
        cmd = [PY, demo]
    r = subprocess.run(cmd, capture_output=True, text=True, env=env, cwd=cwd, timeout=1800)
    return r.returncode, (r.stdout + r.stderr)[-600:]


def main():
    args = sys.argv[1:]
    sid = args[0]
    checks = []
    if "--check" in args:
        checks = [a for a in args[args.index("--check") + 1:] if not a.startswith("--")]
    src = f"/tmp/seed_out/{sid}"
    dst = os.path.join(VERIF, "seeded", sid)
    if "--detect-only" in args:
        meta = json.load(open(os.path.join(dst, "meta.json")))
        if not meta.get("confirmation", {}).get("confirmed"):
            raise SystemExit(f"{sid} is not confirmed")
        from . import mutate
        det = meta.setdefault("detection", {})
        for c in checks:
            res = mutate.run(c, os.path.join(dst, "patch.diff"))
            det[c] = dict(detected=res["detected"], exit=res["exit"], wall_s=res["wall_s"], lines=res["lines"][:6], tier="quick")
            print(sid, c, "detected" if res["detected"] else f"MISSED (exit {res['exit']})", res["lines"][1:2], res.get("tail", "")[-300:], res.get("err", "")[-300:])
        json.dump(meta, open(os.path.join(dst, "meta.json"), "w"), indent=1)
        return
    if not os.path.isdir(src) and os.path.isdir(dst):
        src = dst
    meta = json.load(open(os.path.join(src, "meta.json")))
    demo_name = "demo.py" if os.path.exists(os.path.join(src, "demo.py")) else [f for f in os.listdir(src) if f.endswith(".py")][0]
    wt = f"/tmp/cf_{sid}"
    sh(f"git -C /repo worktree remove --force {wt}")
    r = sh(f"git -C /repo worktree add --detach {wt} HEAD")
    conf = {}
    try:
        r = sh(f"git -C {wt} apply --3way {src}/patch.diff")
        if r.returncode:
            r = sh(f"git -C {wt} apply {src}/patch.diff")
        conf["applies"] = r.returncode == 0
        if not conf["applies"]:
            conf["apply_err"] = r.stderr[-400:]
        else:
            sh(f"git -C {wt} diff HEAD > /tmp/cf_{sid}.diff")
            scratch = f"/tmp/cf_{sid}_run"
            os.makedirs(scratch, exist_ok=True)
            shutil.copy(os.path.join(src, demo_name), scratch)
            for attempt in range(3):  # schedule-forcing demos can be timing sensitive under load
                rc1, out1 = run_demo(os.path.join(scratch, demo_name), wt, scratch)
                if rc1 != 0:
                    break
            rc0, out0 = run_demo(os.path.join(scratch, demo_name), None, scratch)
            conf["demo_with_change"] = dict(exit=rc1, tail=out1[-300:])
            conf["demo_without_change"] = dict(exit=rc0, tail=out0[-300:])
            shutil.rmtree(scratch, ignore_errors=True)
            prev = meta.get("confirmation", {}).get("test_suite_with_change")
            if not prev and os.path.exists(os.path.join(dst, "meta.json")):
                prev = json.load(open(os.path.join(dst, "meta.json"))).get("confirmation", {}).get("test_suite_with_change")
            if "--no-tests" in args and prev:
                conf["test_suite_with_change"] = prev
            if "--no-tests" not in args:
                t0 = time.time()
                env = dict(os.environ, PYTHONPATH=wt)
                rt = subprocess.run([PY, "-m", "pytest", "-q", "-p", "no:cacheprovider", "--timeout=900", "-n", "8", "test"],
                                    capture_output=True, text=True, cwd=wt, env=env)
                tail = rt.stdout.strip().splitlines()[-1] if rt.stdout.strip() else ""
                failed = sorted(set(l.split()[1] for l in rt.stdout.splitlines() if l.startswith("FAILED")))
                conf["test_suite_with_change"] = dict(summary=tail, failed=failed, wall_s=round(time.time() - t0))
    finally:
        sh(f"git -C /repo worktree remove --force {wt}")
        sh("git -C /repo worktree prune")
    ok = (conf.get("applies") and conf["demo_with_change"]["exit"] != 0 and conf["demo_without_change"]["exit"] == 0
          and conf.get("test_suite_with_change", {}).get("failed") in ([], ["test/test_cmdline.py::test_cmdline_simple"])
          and " passed" in conf.get("test_suite_with_change", {}).get("summary", ""))
    conf["confirmed"] = bool(ok)
    os.makedirs(dst, exist_ok=True)
    if src != dst:
        for f in os.listdir(src):
            shutil.copy(os.path.join(src, f), dst)
    if conf.get("applies") and os.path.exists(f"/tmp/cf_{sid}.diff"):
        shutil.move(f"/tmp/cf_{sid}.diff", os.path.join(dst, "patch.diff"))  # rebased onto current /repo HEAD
    meta["confirmation"] = conf
    if checks and ok:
        from . import mutate
        det = meta.setdefault("detection", {})
        for c in checks:
            res = mutate.run(c, os.path.join(dst, "patch.diff"))
            det[c] = dict(detected=res["detected"], exit=res["exit"], wall_s=res["wall_s"], lines=res["lines"][:6], tier="quick")
    json.dump(meta, open(os.path.join(dst, "meta.json"), "w"), indent=1)
    print(json.dumps({k: v for k, v in meta.items() if k in ("confirmation", "detection")}, indent=1))


if __name__ == "__main__":
    main()
