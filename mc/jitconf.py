"""Conformance of the JIT explorer's stubs with the real builder/loader (DESIGN §2.5).

(i)   strace of one real ``compile_forms`` build: the order of mutating file-system events on the cache
      directory must equal the order produced by the stub builder in the explorer;
(ii)  a real import of a truncated shared object must fail, of the complete one must succeed;
(iii) N real processes requesting the same form concurrently with the real compiler: exactly one builds,
      all return, all kernels compute the same numbers (a free-running run, not an enumeration).
"""

from __future__ import annotations

import json
import os
import re
import shutil
import subprocess
import sys
import tempfile

PY = sys.executable

_REQ = r"""
import sys, json, os
import numpy as np, basix.ufl, ufl, cffi
import ffcx.codegeneration.jit as jit
dom = ufl.Mesh(basix.ufl.element("P", "triangle", 1, shape=(2,)))
V = ufl.FunctionSpace(dom, basix.ufl.element("P", "triangle", 1))
u, v = ufl.TrialFunction(V), ufl.TestFunction(V)
form = u * v * ufl.dx
try:
    objs, mod, code = jit.compile_forms([form], cache_dir=sys.argv[1], timeout=int(sys.argv[2]))
except Exception as e:
    print(json.dumps({"exc": type(e).__name__, "msg": str(e)[:200]})); sys.exit(0)
ffi = cffi.FFI()
k = objs[0].form_integrals[0]
A = np.zeros(9); w = np.zeros(1); c = np.zeros(1)
x = np.array([0, 0, 0, 1, 0, 0, 0, 1, 0], dtype=np.float64)
k.tabulate_tensor_float64(ffi.cast("double*", A.ctypes.data), ffi.cast("double*", w.ctypes.data), ffi.cast("double*", c.ctypes.data),
    ffi.cast("double*", x.ctypes.data), ffi.NULL, ffi.NULL, ffi.NULL)
print(json.dumps({"built": code[0] is not None, "A": A.tolist(), "module": mod.__name__}))
"""


def _scratch():
    base = "/dev/shm" if os.path.isdir("/dev/shm") else None
    return tempfile.mkdtemp(prefix="jitconf_", dir=base)


def strace_build():
    """Return (abstract event list of the real build, module name) or raise RuntimeError if strace is unusable."""
    d = _scratch()
    try:
        cache = os.path.join(d, "cache")
        os.mkdir(cache)
        out = os.path.join(d, "trace.txt")
        r = subprocess.run(
            ["strace", "-f", "-qq", "-e", "trace=openat,open,creat,rename,renameat,renameat2,unlink,unlinkat", "-o", out,
             PY, "-c", _REQ, cache, "2"], capture_output=True, text=True, timeout=600)
        if r.returncode != 0 or not os.path.exists(out):
            raise RuntimeError("strace failed: " + r.stderr[-500:])
        res = json.loads(r.stdout.strip().splitlines()[-1])
        mod = res["module"]
        ev = []
        for line in open(out, errors="replace"):
            if mod not in line or "ENOENT" in line and "openat" in line and "O_CREAT" not in line:
                continue
            m = re.search(r'(openat|open|creat)\([^"]*"([^"]+)", ([A-Z_|0-9]+)', line)
            if m:
                path, flags = m.group(2), m.group(3)
                if "O_CREAT" not in flags and "O_TRUNC" not in flags and m.group(1) != "creat":
                    continue  # reads are not part of the compared sequence
                if " = -1" in line:
                    continue
                name = os.path.basename(path).replace(mod, "M")
                name = re.sub(r"\.c\.~\d+$", ".c.~pid", name)
                name = re.sub(r"\.cpython-[^.]+\.so$", ".so", name)
                if not name.startswith("M"):
                    continue  # compiler temporaries (/tmp/cc*.s etc.)
                ev.append(("create-excl" if "O_EXCL" in flags else "create", name))
                continue
            m = re.search(r'rename(?:at2?)?\((?:AT_FDCWD, )?"([^"]+)", (?:AT_FDCWD, )?"([^"]+)"', line)
            if m and " = 0" in line:
                a, b = (os.path.basename(x).replace(mod, "M") for x in m.groups())
                a = re.sub(r"\.c\.~\d+$", ".c.~pid", a)
                ev.append(("rename", a, b))
                continue
            m = re.search(r'unlink(?:at)?\((?:AT_FDCWD, )?"([^"]+)"', line)
            if m and " = 0" in line:
                name = os.path.basename(m.group(1)).replace(mod, "M")
                name = re.sub(r"\.cpython-[^.]+\.so$", ".so", name)
                if name.startswith("M"):
                    ev.append(("unlink", name))
        # collapse repeated creates of the same file (ld may open its output more than once)
        out_ev = []
        for e in ev:
            if out_ev and out_ev[-1] == e:
                continue
            out_ev.append(e)
        return out_ev, res
    finally:
        shutil.rmtree(d, ignore_errors=True)


def stub_build_events():
    """The same abstract event list produced by the explorer's stub builder for a solo request."""
    from . import sched

    with sched.Explorer() as E:
        sc = sched.Scenario("solo", [sched.ProcSpec("P0", "A", timeout=2)], preemptions=0)
        ex = E.execute(sc, [])
        mn = E.module_name("A")
    ev = []
    for name, desc, obs in ex.trace:
        if obs not in ("ok",) and desc[0] != "cffi.read":
            continue
        d = tuple(x.replace(mn, "M") if isinstance(x, str) else x for x in desc)
        if d[0] == "open" and len(d) > 2 and any(c in d[2] for c in "xw"):
            ev.append(("create-excl" if "x" in d[2] else "create", d[1]))
        elif d[0] == "cffi.write":
            ev.append(("create", d[1]))
        elif d[0] == "cffi.rename":
            ev.append(("rename", d[1], d[2]))
        elif d[0] == "cc.write":
            ev.append(("create", d[1]))
        elif d[0] == "ld.create":
            ev.append(("create", d[1]))
    return ev


def truncated_import_check():
    """(ii): real loader semantics for partial/complete shared objects."""
    d = _scratch()
    try:
        cache = os.path.join(d, "c")
        os.mkdir(cache)
        r = subprocess.run([PY, "-c", _REQ, cache, "2"], capture_output=True, text=True, timeout=600)
        res = json.loads(r.stdout.strip().splitlines()[-1])
        so = [f for f in os.listdir(cache) if f.endswith(".so")][0]
        full = open(os.path.join(cache, so), "rb").read()
        results = {}
        for label, data in (("truncated", full[: len(full) // 2]), ("empty", b""), ("complete", full)):
            d2 = os.path.join(d, label)
            os.mkdir(d2)
            with open(os.path.join(d2, so), "wb") as f:
                f.write(data)
            code = (
                "import importlib.machinery, importlib.util, sys\n"
                f"f = importlib.machinery.FileFinder({d2!r}, (importlib.machinery.ExtensionFileLoader, importlib.machinery.EXTENSION_SUFFIXES))\n"
                f"s = f.find_spec({res['module']!r})\n"
                "m = importlib.util.module_from_spec(s); s.loader.exec_module(m); print('LOADED')\n"
            )
            rr = subprocess.run([PY, "-c", code], capture_output=True, text=True)
            results[label] = "LOADED" in rr.stdout
        return results
    finally:
        shutil.rmtree(d, ignore_errors=True)


def real_concurrent(n=4, timeout=60):
    """(iii): n real processes, real compiler, same cache directory, started together."""
    d = _scratch()
    try:
        cache = os.path.join(d, "c")
        os.mkdir(cache)
        ps = [subprocess.Popen([PY, "-c", _REQ, cache, str(timeout)], stdout=subprocess.PIPE, text=True) for _ in range(n)]
        outs = [json.loads(p.communicate(timeout=900)[0].strip().splitlines()[-1]) for p in ps]
        files = sorted(os.listdir(cache))
        return outs, files
    finally:
        shutil.rmtree(d, ignore_errors=True)


def real_slow_builder(sleep_s=5):
    """(iii-b) re-enactment of the model's 'waiter times out while the builder is still compiling' outcome class with real
    processes: the C compiler is wrapped by a script that sleeps; the waiter's timeout is shorter than the build."""
    d = _scratch()
    try:
        cache = os.path.join(d, "c")
        os.mkdir(cache)
        cc = os.path.join(d, "slowcc.sh")
        with open(cc, "w") as f:
            f.write("#!/bin/sh\nsleep %d\nexec gcc \"$@\"\n" % sleep_s)
        os.chmod(cc, 0o755)
        env = dict(os.environ, CC=cc, LDSHARED=cc + " -shared")
        builder = subprocess.Popen([PY, "-c", _REQ, cache, "60"], stdout=subprocess.PIPE, text=True, env=env)
        # wait until the builder holds the lock
        import time

        t0 = time.time()
        while time.time() - t0 < 120 and not any(f.endswith(".c") for f in os.listdir(cache)):
            time.sleep(0.05)
        waiter = subprocess.Popen([PY, "-c", _REQ, cache, "2"], stdout=subprocess.PIPE, text=True)
        wout = json.loads(waiter.communicate(timeout=600)[0].strip().splitlines()[-1])
        bout = json.loads(builder.communicate(timeout=900)[0].strip().splitlines()[-1])
        later = subprocess.run([PY, "-c", _REQ, cache, "2"], capture_output=True, text=True, timeout=600)
        lout = json.loads(later.stdout.strip().splitlines()[-1])
        return dict(builder=bout, waiter=wout, later=lout)
    finally:
        shutil.rmtree(d, ignore_errors=True)
