"""Driver shared by the oracle-based (B) checks: run a set of configurations through engine.run_recipe in a
process pool, turn failures into violations with stable keys, collect coverage counters."""

from __future__ import annotations

import os

from . import engine, space
from .runner import Check, pmap


def _work(item):
    k, cfg, seed, kw = item
    scalar = cfg.get("scalar", "float64")
    options = cfg.get("options")
    import time as _t
    t0 = _t.time()
    try:
        r = engine.run_recipe(cfg, scalar=scalar, options=options, seed=seed, **kw)
    except NotImplementedError as e:
        r = dict(status="oracle-unsupported", why=str(e), evaluations=0, nontrivial=0, failures=[])
    r["key"] = k
    r["wall"] = round(_t.time() - t0, 2)
    return r


def run_configs(chk: Check, nodes: dict, kw=None, desc=""):
    """nodes: {key: cfg}. Returns counters dict; reports violations through chk."""
    kw = kw or {}
    items = [(k, cfg, chk.seed, kw) for k, cfg in nodes.items()]
    # heavier 3D configurations first for better load balance
    items.sort(key=lambda it: (it[1]["cell"] in ("tetrahedron", "hexahedron", "prism"), it[1].get("itype") == "dS"), reverse=True)
    counts = dict(generated=len(items), ok=0, inapplicable=0, rejected=0, oracle_unsupported=0, invalid_c=0, violating=0,
                  kernel_calls=0, nontrivial_calls=0, nontrivial_configs=0, tolerance_induced=0, maxerr=0.0)
    rejected, samples, unsupported = [], [], []
    slow = []
    for it, r in pmap(_work, items, desc=desc):
        st = r["status"]
        cfg = it[1]
        slow.append((r.get("wall", 0), r["key"]))
        counts["kernel_calls"] += r.get("evaluations", 0)
        counts["nontrivial_calls"] += r.get("nontrivial", 0)
        counts["tolerance_induced"] += r.get("tolerance_induced", 0)
        if st == "ok":
            counts["ok"] += 1
            counts["maxerr"] = max(counts["maxerr"], r.get("maxerr", 0.0))
            if r.get("nontrivial", 0) > 0:
                counts["nontrivial_configs"] += 1
            if len(samples) < 6 and r.get("evaluations", 0) > 3:
                samples.append(dict(config=r["key"], kernel_calls=r["evaluations"], max_rel_err=r.get("maxerr")))
        elif st == "inapplicable":
            counts["inapplicable"] += 1
        elif st == "rejected":
            counts["rejected"] += 1
            rejected.append((r["key"], r.get("why", "")))
        elif st == "oracle-unsupported":
            counts["oracle_unsupported"] += 1
            unsupported.append((r["key"], r.get("why", "")))
        elif st == "invalid-c":
            counts["invalid_c"] += 1
            rejected.append((r["key"], "INVALID C: " + r.get("why", "")[-200:]))
        elif st == "violation":
            counts["violating"] += 1
            f = r["failures"][0]
            chk.violation(f"{chk.pid}:{r['key']}:{f['kind']}", f["text"], recipe=dict(config=cfg, seed=chk.seed, kw=kw),
                          observed=r["failures"][:5])
    slow.sort(reverse=True)
    counts["cpu_s_total"] = round(sum(w for w, _ in slow), 1)
    counts["slowest"] = [f"{w}s {k}" for w, k in slow[:5]]
    return counts, samples, rejected, unsupported


def replay_config(path, **kw):
    import json

    doc = json.load(open(path))
    rec = doc["recipe"]
    cfg = rec["config"]
    k2 = dict(rec.get("kw") or {})
    k2.update(kw)
    if "instances" in k2:
        k2["instances"] = tuple(k2["instances"])
    r = engine.run_recipe(cfg, scalar=cfg.get("scalar", "float64"), options=cfg.get("options"), seed=rec.get("seed", 0), **k2)
    print("status:", r["status"], r.get("why", ""))
    for f in r["failures"]:
        print("  ", f["text"])
    return 1 if r["status"] == "violation" else 0
