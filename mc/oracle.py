"""Reference model R (DESIGN §2.2): evaluates UFL integrals / expressions in reference space, independently
of FFCx stages 2-5 (IR, tables, value numbering, factorisation, code generation, C compiler).

R relies on: UFL's own preprocessing (compute_form_data with the documented flag set), *core* basix
tabulation / quadrature / reference-cell data, numpy.  It does not import anything from ffcx.
"""

from __future__ import annotations

import itertools
import math

import basix
import basix.ufl
import numpy as np
import ufl
from ufl.classes import (
    Abs, Argument, CellEdgeVectors, CellFacetJacobian, CellOrientation, CellVertices, Coefficient, ComponentTensor,
    Condition, Conditional, Conj, Constant, Division, FacetEdgeVectors, FacetOrientation, FixedIndex, FormArgument, Identity,
    Imag, Indexed, IndexSum, Jacobian, ListTensor, MathFunction, MaxValue, MinValue, Power, Product, QuadratureWeight,
    Real, ReferenceCellEdgeVectors, ReferenceCellVolume, ReferenceFacetEdgeVectors, ReferenceFacetVolume, ReferenceGrad,
    ReferenceNormal, ReferenceValue, Restricted, ScalarValue, SpatialCoordinate, Sum, Variable, Zero, CellCoordinate,
    FacetCoordinate,
)

TDIM = {"interval": 1, "triangle": 2, "quadrilateral": 2, "tetrahedron": 3, "hexahedron": 3, "prism": 3, "pyramid": 3}
INTEGRAL_TYPES = ("cell", "exterior_facet", "interior_facet", "vertex")


def celltype(name):
    return getattr(basix.CellType, name)


# ---------------------------------------------------------------------------------------------------
# element tabulation, composed from core basix elements by R's own rules
# ---------------------------------------------------------------------------------------------------
def _nderivs(nder, tdim):
    return math.comb(nder + tdim, tdim)


def tab_element(e, nder, pts):
    """-> array [deriv_idx, npts, ndofs, ref_components]"""
    n = type(e).__name__
    pts = np.ascontiguousarray(pts, dtype=np.float64)
    if n == "_BasixElement":
        return e._element.tabulate(nder, pts)
    if n == "_BlockedElement":
        sub = tab_element(e._sub_element, nder, pts)  # [d,p,k,1]
        assert sub.shape[3] == 1
        bs = e.block_size
        out = np.zeros(sub.shape[:2] + (sub.shape[2] * bs, bs))
        for c in range(bs):
            out[:, :, c::bs, c] = sub[:, :, :, 0]
        return out
    if n == "_MixedElement":
        subs = [tab_element(s, nder, pts) for s in e.sub_elements]
        nd = sum(s.shape[2] for s in subs)
        nc = sum(s.shape[3] for s in subs)
        out = np.zeros(subs[0].shape[:2] + (nd, nc))
        d0 = c0 = 0
        for s in subs:
            out[:, :, d0:d0 + s.shape[2], c0:c0 + s.shape[3]] = s
            d0 += s.shape[2]
            c0 += s.shape[3]
        return out
    if n == "_QuadratureElement":
        if nder != 0:
            raise NotImplementedError("derivative of quadrature element")
        if pts.shape != e._points.shape or not np.allclose(pts, e._points):
            raise ValueError("quadrature element evaluated away from its points")
        return np.eye(pts.shape[0])[None, :, :, None]
    if n == "_RealElement":
        tdim = pts.shape[1]
        out = np.zeros((_nderivs(nder, tdim), len(pts), e.dim, e.dim))
        out[0] = np.eye(e.dim)
        return out
    raise NotImplementedError(n)


def element_dim(e):
    return e.dim


# ---------------------------------------------------------------------------------------------------
# sub-entity geometry of reference cells (own implementation on basix.topology/geometry)
# ---------------------------------------------------------------------------------------------------
def entity_vertices(cellname, dim, index):
    ct = celltype(cellname)
    g = np.asarray(basix.geometry(ct))
    return g[basix.topology(ct)[dim][index]]


def entity_cellname(cellname, dim, index):
    return basix.cell.subentity_types(celltype(cellname))[dim][index].name


def num_entities(cellname, dim):
    return len(basix.topology(celltype(cellname))[dim])


def map_to_cell(cellname, dim, index, pts):
    """Reference-entity points -> reference-cell points: v0 + sum_i xi_i (v_i - v0)."""
    tdim = TDIM[cellname]
    if dim == tdim:
        return np.asarray(pts, dtype=float)
    v = entity_vertices(cellname, dim, index)
    if dim == 0:
        return v[:1].copy()
    pts = np.asarray(pts, dtype=float)
    # for quadrilateral facets the axes are (v1 - v0, v2 - v0)
    return v[0] + pts @ (v[1: 1 + pts.shape[1]] - v[0])


# UFCx permutation convention (spec, written down here; see ufcx.h: N/2 rotations then N%2 reflections)
def permute_points(entity_cell, pts, code):
    pts = np.array(pts, dtype=float, copy=True)
    rot, ref = code // 2, code % 2
    if entity_cell == "interval":
        if code not in (0, 1):
            raise ValueError(code)
        for _ in range(code):
            pts = 1.0 - pts
        return pts
    if entity_cell == "triangle":
        for _ in range(rot):
            pts = np.stack([pts[:, 1], 1.0 - pts[:, 0] - pts[:, 1]], axis=1)
        for _ in range(ref):
            pts = pts[:, ::-1].copy()
        return pts
    if entity_cell == "quadrilateral":
        for _ in range(rot):
            pts = np.stack([pts[:, 1], 1.0 - pts[:, 0]], axis=1)
        for _ in range(ref):
            pts = pts[:, ::-1].copy()
        return pts
    if entity_cell == "point":
        return pts
    raise NotImplementedError(entity_cell)


def num_permutation_codes(entity_cell):
    return {"point": 1, "interval": 2, "triangle": 6, "quadrilateral": 8}[entity_cell]


# ---------------------------------------------------------------------------------------------------
# quadrature rule selection (documented behaviour, decided by R itself)
# ---------------------------------------------------------------------------------------------------
def _polyset(ect, elements):
    """Polyset type of the rule: superset over the form's argument elements (macro elements need a rule on the sub-cells)."""
    pt = basix.PolysetType.standard
    for e in elements or ():
        pt = basix.polyset_superset(ect, pt, getattr(e, "polyset_type", basix.PolysetType.standard))
    return pt


def integral_rule(integral, itype, cellname, entity_cell, tensor_product=False, degree_shift=0, arg_elements=()):
    """(points on the reference integration entity, weights) for one UFL integral."""
    md = integral.metadata() or {}
    # quadrature elements define the rule
    custom = None
    for e in ufl.algorithms.extract_elements(integral):
        if getattr(e, "has_custom_quadrature", False):
            p, w = e.custom_quadrature()
            if custom is not None and not (np.allclose(p, custom[0]) and np.allclose(w, custom[1])):
                raise ValueError("inconsistent quadrature elements")
            custom = (np.asarray(p), np.asarray(w))
    if custom is not None:
        return custom
    if itype == "vertex" or entity_cell == "point":
        return np.zeros((1, 0)), np.ones(1)
    if md.get("quadrature_rule") == "custom":
        # the user's own points and weights on the reference integration entity
        return np.asarray(md["quadrature_points"], dtype=float), np.asarray(md["quadrature_weights"], dtype=float)
    q = md.get("quadrature_degree", -1)
    if q is None or q == "default" or (isinstance(q, (int, np.integer)) and q < 0):
        q = int(np.max(md["estimated_polynomial_degree"])) + degree_shift
    scheme = md.get("quadrature_rule", "default")
    ect = celltype(entity_cell)
    if scheme == "vertex":
        pts = np.asarray(basix.geometry(ect))
        return pts, np.full(len(pts), basix.cell.volume(ect) / len(pts))
    if tensor_product and itype == "cell" and cellname in ("quadrilateral", "hexahedron"):
        p1, w1 = basix.make_quadrature(basix.CellType.interval, int(q), rule=basix.quadrature.string_to_type(scheme),
                                       polyset_type=_polyset(basix.CellType.interval, arg_elements))
        d = TDIM[cellname]
        pts = np.array([[p[0] for p in pp] for pp in itertools.product(*([p1] * d))])
        wts = np.array([np.prod(ww) for ww in itertools.product(*([w1] * d))])
        return pts, wts
    return basix.make_quadrature(ect, int(q), rule=basix.quadrature.string_to_type(scheme), polyset_type=_polyset(ect, arg_elements))


# ---------------------------------------------------------------------------------------------------
# evaluation context and modified terminals
# ---------------------------------------------------------------------------------------------------
class Ctx:
    """Data of one kernel call.

    pts[side]   : points on the reference cell [Q, tdim]  (side in (None,) or ('+','-'))
    xdofs[side] : coordinate dofs [nodes, gdim]
    w[coefficient][side] -> dof vector;  c[constant] -> array; args: number -> element
    entities[side] -> local entity index (facet / vertex) or None
    """

    def __init__(self, cellname, itype, pts, weights, coord_el, xdofs, w, c, entities=None, cmplx=False, entity_dim=None):
        self.cellname, self.itype = cellname, itype
        self.pts, self.weights = pts, np.asarray(weights)
        self.coord_el, self.xdofs = coord_el, xdofs
        self.w, self.c = w, c
        self.entities = entities or {}
        self.cmplx = cmplx
        self.Q = len(self.weights)
        self.two_sided = itype == "interior_facet"
        self.entity_dim = entity_dim
        self.margin = np.inf  # smallest |lhs - rhs| seen in a comparison (branch decisions must not hinge on rounding)


def _dtensor(tab, k, tdim, Q):
    """tab [deriv_idx, Q, dofs, comps] -> [comps, tdim^k, Q, dofs]"""
    out = np.zeros((tab.shape[3],) + (tdim,) * k + (Q, tab.shape[2]))
    for dirs in itertools.product(range(tdim), repeat=k):
        counts = [dirs.count(i) for i in range(tdim)]
        out[(slice(None),) + dirs] = np.moveaxis(tab[basix.index(*counts)], 2, 0)
    return out


def eval_mt(ctx: Ctx, terminal, nrgrad, refval, side):
    """ReferenceGrad^k(ReferenceValue?(terminal)) restricted to `side` -> (shape..., tdim^k..., Q, I, J)."""
    sk = (side if side is not None else "+") if ctx.two_sided else None
    pts = ctx.pts[sk]
    tdim = pts.shape[1]
    Q = ctx.Q
    ones = np.ones((Q, 1, 1))
    if isinstance(terminal, FormArgument):
        e = terminal.ufl_function_space().ufl_element()
        if not refval:
            raise NotImplementedError("form argument without ReferenceValue")
        T = _dtensor(tab_element(e, nrgrad, pts), nrgrad, tdim, Q)  # [comps, tdim^k, Q, dofs]
        rshape = tuple(e.reference_value_shape)
        need = int(np.prod(rshape)) if rshape else 1
        if T.shape[0] < need:  # symmetric tensors: only the independent components are stored
            T = np.concatenate([T, np.zeros((need - T.shape[0],) + T.shape[1:])], axis=0)
        T = T.reshape(rshape + T.shape[1:])
        n = e.dim
        if isinstance(terminal, Argument):
            num = terminal.number()
            if ctx.two_sided:
                full = np.zeros(T.shape[:-1] + (2 * n,))
                off = n if sk == "-" else 0
                full[..., off:off + n] = T
                T = full
            return T[..., :, None] if num == 0 else T[..., None, :]
        wv = np.asarray(ctx.w[terminal][sk])
        return np.tensordot(T, wv, axes=([-1], [0]))[..., None, None]
    if isinstance(terminal, Constant):
        v = np.asarray(ctx.c[terminal]).reshape(terminal.ufl_shape)
        return v.reshape(v.shape + (1, 1, 1)) * ones
    if isinstance(terminal, (Jacobian, SpatialCoordinate)):
        k = nrgrad + (1 if isinstance(terminal, Jacobian) else 0)
        scal = ctx.coord_el._sub_element
        T = _dtensor(tab_element(scal, k, pts), k, tdim, Q)[0]  # [tdim^k, Q, nodes]
        X = np.asarray(ctx.xdofs[sk])  # [nodes, gdim]
        V = np.moveaxis(np.tensordot(T, X, axes=([-1], [0])), -1, 0)  # [gdim, tdim^k, Q]
        return V[..., None, None]
    if nrgrad:
        raise NotImplementedError(f"reference gradient of {type(terminal).__name__}")
    if isinstance(terminal, QuadratureWeight):
        return ctx.weights[:, None, None]
    if isinstance(terminal, CellCoordinate):
        return np.moveaxis(pts, -1, 0)[..., None, None]
    ct = celltype(ctx.cellname)
    ent = ctx.entities.get(sk)
    if isinstance(terminal, ReferenceCellVolume):
        return basix.cell.volume(ct) * ones
    if isinstance(terminal, ReferenceFacetVolume):
        vols = basix.cell.facet_reference_volumes(ct)
        return float(vols[ent if ent is not None else 0]) * ones
    if isinstance(terminal, ReferenceNormal):
        nrm = np.asarray(basix.cell.facet_outward_normals(ct))[ent]
        return nrm.reshape(-1, 1, 1, 1) * ones
    if isinstance(terminal, CellFacetJacobian):
        fj = np.asarray(basix.cell.facet_jacobians(ct))[ent]
        return fj.reshape(fj.shape + (1, 1, 1)) * ones
    if isinstance(terminal, FacetOrientation):
        fo = basix.cell.facet_orientations(ct)[ent]
        return float(fo) * ones
    if isinstance(terminal, CellOrientation):
        return ones
    if isinstance(terminal, (CellVertices, CellEdgeVectors, FacetEdgeVectors)):
        scal = ctx.coord_el._sub_element
        vd = [d[0] for d in scal.entity_dofs[0]]
        X = np.asarray(ctx.xdofs[sk])
        topo = basix.topology(ct)
        if isinstance(terminal, CellVertices):
            out = X[vd]
        elif isinstance(terminal, CellEdgeVectors):
            out = np.array([X[vd[b]] - X[vd[a]] for a, b in topo[1]])
        else:
            fedges = basix.cell.sub_entity_connectivity(ct)[TDIM[ctx.cellname] - 1][ent][1]
            out = np.array([X[vd[topo[1][ei][1]]] - X[vd[topo[1][ei][0]]] for ei in fedges])
        return out.reshape(out.shape + (1, 1, 1)) * ones
    if isinstance(terminal, ReferenceCellEdgeVectors):
        g = np.asarray(basix.geometry(ct))
        out = np.array([g[b] - g[a] for a, b in basix.topology(ct)[1]])
        return out.reshape(out.shape + (1, 1, 1)) * ones
    raise NotImplementedError(type(terminal).__name__)


# ---------------------------------------------------------------------------------------------------
# broadcasting interpreter for preprocessed UFL expressions
# ---------------------------------------------------------------------------------------------------
class Val:
    """array with axes: ufl_shape axes, free-index axes (sorted by index count), 3 batch axes (Q, I, J)."""

    __slots__ = ("a", "fi")

    def __init__(self, a, fi=()):
        self.a, self.fi = a, tuple(fi)


def _align(v, nshape, fi_target):
    a = v.a
    src = list(v.fi)
    out_axes = [nshape + src.index(f) if f in src else None for f in fi_target]
    perm = list(range(nshape)) + [x for x in out_axes if x is not None] + list(range(nshape + len(src), a.ndim))
    a = a.transpose(perm)
    for pos, x in enumerate(out_axes):
        if x is None:
            a = np.expand_dims(a, nshape + pos)
    return a


def _bessel(kind, nu, x):
    import mpmath

    f = {"J": mpmath.besselj, "Y": mpmath.bessely, "I": mpmath.besseli, "K": mpmath.besselk}[kind]
    return np.vectorize(lambda t: float(f(nu, float(np.real(t)))))(x)


_MATH = {
    "Sqrt": np.sqrt, "Exp": np.exp, "Ln": np.log, "Cos": np.cos, "Sin": np.sin, "Tan": np.tan, "Cosh": np.cosh,
    "Sinh": np.sinh, "Tanh": np.tanh, "Acos": np.arccos, "Asin": np.arcsin, "Atan": np.arctan,
    "Erf": lambda x: np.vectorize(math.erf)(np.real(x)),
}


def evaluate(expr, ctx: Ctx, terminal_handler=None):
    """Evaluate a scalar preprocessed UFL expression -> array (Q, I, J).

    terminal_handler(e, side) may supply values for (modified) terminals itself (used for physical-space evaluation)."""
    cache = {}

    def ev(e, side):
        key = (id(e), side)  # identity, not UFL's structural equality (objects stay alive during this call)
        r = cache.get(key)
        if r is None:
            r = _ev(e, side)
            cache[key] = r
        return r

    def strip_mt(e):
        k = 0
        rv = False
        side = None
        t = e
        while not t._ufl_is_terminal_:
            if isinstance(t, ReferenceGrad):
                k += 1
            elif isinstance(t, ReferenceValue):
                rv = True
            elif isinstance(t, Restricted):
                side = t._side
            else:
                return None
            t = t.ufl_operands[0]
        return t, k, rv, side

    def binop(e, side, f):
        o0, o1 = e.ufl_operands
        a, b = ev(o0, side), ev(o1, side)
        fi = tuple(sorted(set(a.fi) | set(b.fi)))
        na, nb = len(o0.ufl_shape), len(o1.ufl_shape)
        n = max(na, nb)
        A, B = _align(a, na, fi), _align(b, nb, fi)
        if na < n:
            A = A.reshape((1,) * (n - na) + A.shape)
        if nb < n:
            B = B.reshape((1,) * (n - nb) + B.shape)
        return Val(f(A, B), fi)

    def _ev(e, side):
        if terminal_handler is not None:
            r = terminal_handler(e, side)
            if r is not None:
                return Val(np.asarray(r))
        if isinstance(e, ScalarValue):
            return Val(np.full((1, 1, 1), e.value()))
        if isinstance(e, Zero):
            dims = dict(zip(e.ufl_free_indices, e.ufl_index_dimensions))
            fi = tuple(sorted(e.ufl_free_indices))
            return Val(np.zeros(e.ufl_shape + tuple(dims[i] for i in fi) + (1, 1, 1)), fi)
        if isinstance(e, Identity):
            return Val(np.eye(e.ufl_shape[0]).reshape(e.ufl_shape + (1, 1, 1)))
        mt = strip_mt(e)
        if mt is not None:
            t, k, rv, s = mt
            return Val(np.asarray(eval_mt(ctx, t, k, rv, s if s is not None else side)))
        if isinstance(e, Restricted):
            return ev(e.ufl_operands[0], e._side)
        if isinstance(e, Variable):
            return ev(e.ufl_operands[0], side)
        if isinstance(e, Sum):
            return binop(e, side, np.add)
        if isinstance(e, Product):
            return binop(e, side, np.multiply)
        if isinstance(e, Division):
            return binop(e, side, np.divide)
        if isinstance(e, Power):
            def pw(a, b):
                if ctx.cmplx:
                    return np.power(a.astype(complex), b)
                return np.power(a.astype(float), b)
            return binop(e, side, pw)
        if isinstance(e, MinValue):
            return binop(e, side, lambda a, b: np.minimum(np.real(a), np.real(b)))
        if isinstance(e, MaxValue):
            return binop(e, side, lambda a, b: np.maximum(np.real(a), np.real(b)))
        nm = type(e).__name__
        if nm == "Atan2":
            return binop(e, side, lambda a, b: np.arctan2(np.real(a), np.real(b)))
        if nm in ("BesselJ", "BesselY", "BesselI", "BesselK"):
            nu = int(e.ufl_operands[0])
            a = ev(e.ufl_operands[1], side)
            return Val(_bessel(nm[-1], nu, a.a), a.fi)
        if isinstance(e, Condition):
            ops = {"LT": np.less, "GT": np.greater, "LE": np.less_equal, "GE": np.greater_equal, "EQ": np.equal,
                   "NE": np.not_equal, "AndCondition": np.logical_and, "OrCondition": np.logical_or}
            if nm == "NotCondition":
                a = ev(e.ufl_operands[0], side)
                return Val(np.logical_not(a.a), a.fi)
            def cmpf(a, b):
                d = np.abs(np.real(a) - np.real(b))
                if d.size:
                    ctx.margin = min(ctx.margin, float(d.min()))
                return ops[nm](np.real(a), np.real(b)) if nm in ("LT", "GT", "LE", "GE") else ops[nm](a, b)
            if nm in ("LT", "GT", "LE", "GE", "EQ", "NE"):
                return binop(e, side, cmpf)
            return binop(e, side, lambda a, b: ops[nm](a, b))
        if isinstance(e, Conditional):
            c, t, f = (ev(o, side) for o in e.ufl_operands)
            fi = tuple(sorted(set(c.fi) | set(t.fi) | set(f.fi)))
            return Val(np.where(_align(c, 0, fi), _align(t, 0, fi), _align(f, 0, fi)), fi)
        if isinstance(e, (Abs, Conj, Real, Imag, MathFunction)):
            a = ev(e.ufl_operands[0], side)
            fn = {"Abs": np.abs, "Conj": np.conj, "Real": np.real, "Imag": np.imag}.get(nm) or _MATH[nm]
            x = a.a
            if ctx.cmplx and nm in ("Sqrt", "Ln", "Acos", "Asin"):
                x = x.astype(complex)
            return Val(fn(x), a.fi)
        if isinstance(e, Indexed):
            A, mi = e.ufl_operands
            a = ev(A, side)
            arr = a.a
            idx = []
            newfi = []
            for i in mi:
                if isinstance(i, FixedIndex):
                    idx.append(int(i))
                else:
                    idx.append(slice(None))
                    newfi.append(i.count())
            arr = arr[tuple(idx)]
            labels = newfi + list(a.fi)
            while len(set(labels)) != len(labels):
                for lab in labels:
                    pos = [p for p, x in enumerate(labels) if x == lab]
                    if len(pos) > 1:
                        arr = np.diagonal(arr, axis1=pos[0], axis2=pos[1])
                        arr = np.moveaxis(arr, -1, pos[0])
                        del labels[pos[1]]
                        break
            order = sorted(range(len(labels)), key=lambda p: labels[p])
            arr = arr.transpose(order + list(range(len(labels), arr.ndim)))
            return Val(arr, tuple(sorted(labels)))
        if isinstance(e, IndexSum):
            s, mi = e.ufl_operands
            a = ev(s, side)
            ic = mi[0].count()
            ax = len(s.ufl_shape) + a.fi.index(ic)
            arr = a.a
            if arr.shape[ax] == 1:
                d = dict(zip(s.ufl_free_indices, s.ufl_index_dimensions))[ic]
                arr = arr.sum(axis=ax) * d
            else:
                arr = arr.sum(axis=ax)
            return Val(arr, tuple(f for f in a.fi if f != ic))
        if isinstance(e, ComponentTensor):
            s, mi = e.ufl_operands
            a = ev(s, side)
            assert s.ufl_shape == ()
            dims = dict(zip(s.ufl_free_indices, s.ufl_index_dimensions))
            counts = [i.count() for i in mi]
            fi_rest = tuple(f for f in a.fi if f not in counts)
            arr = a.a
            src = [a.fi.index(c) for c in counts]
            rest = [a.fi.index(f) for f in fi_rest]
            arr = arr.transpose(src + rest + list(range(len(a.fi), arr.ndim)))
            tgt = tuple(dims[c] for c in counts) + arr.shape[len(counts):]
            if arr.shape != tgt:
                full = np.empty(tgt, dtype=arr.dtype)
                full[...] = arr
                arr = full
            return Val(arr, fi_rest)
        if isinstance(e, ListTensor):
            subs = [ev(o, side) for o in e.ufl_operands]
            fi = tuple(sorted(set().union(*[s.fi for s in subs])))
            nsh = len(e.ufl_operands[0].ufl_shape)
            arrs = [_align(s, nsh, fi) for s in subs]
            shp = np.broadcast_shapes(*[x.shape for x in arrs])
            out = np.empty((len(arrs),) + tuple(shp), dtype=np.result_type(*arrs))
            for i, x in enumerate(arrs):
                out[i] = x
            return Val(out, fi)
        raise NotImplementedError(type(e).__name__)

    v = ev(expr, None)
    if v.fi != () or expr.ufl_shape != ():
        raise ValueError("integrand must be scalar without free indices")
    return np.broadcast_to(v.a, np.broadcast_shapes(v.a.shape, (ctx.Q, 1, 1)))


def evaluate_tensor(expr, ctx: Ctx):
    """Evaluate a tensor-valued expression without free indices -> (shape..., Q, I, J)."""
    comps = list(itertools.product(*[range(n) for n in expr.ufl_shape]))
    if not comps or expr.ufl_shape == ():
        return evaluate(expr, ctx)
    out = None
    for cidx in comps:
        v = evaluate(expr[cidx], ctx)
        if out is None:
            out = np.zeros(expr.ufl_shape + (ctx.Q,) + tuple(v.shape[1:]), dtype=v.dtype if np.iscomplexobj(v) else float)
        if np.iscomplexobj(v) and not np.iscomplexobj(out):
            out = out.astype(complex)
        out[cidx] = v
    return out


# ---------------------------------------------------------------------------------------------------
# form-level reference
# ---------------------------------------------------------------------------------------------------
def form_data(form, cmplx):
    return ufl.algorithms.compute_form_data(
        form, do_apply_function_pullbacks=True, do_apply_integral_scaling=True, do_apply_geometry_lowering=True,
        preserve_geometry_types=(ufl.classes.Jacobian,), do_apply_restrictions=True,
        do_append_everywhere_integrals=False, complex_mode=cmplx)


ENTITY_DIM = {"cell": lambda t: t, "exterior_facet": lambda t: t - 1, "interior_facet": lambda t: t - 1, "vertex": lambda t: 0}


class FormOracle:
    """R for one form: reference element tensors per (integral type, subdomain id)."""

    def __init__(self, form, cmplx=False, tensor_product=False, degree_shift=0):
        self.degree_shift = degree_shift
        self.form = form
        self.cmplx = cmplx
        self.tensor_product = tensor_product
        self.fd = form_data(form, cmplx)
        dom = form.ufl_domains()[0]
        self.coord_el = dom.ufl_coordinate_element()
        self.cellname = dom.ufl_cell().cellname
        self.tdim = TDIM[self.cellname]
        self.gdim = dom.geometric_dimension
        self.arguments = sorted(self.fd.original_form.arguments(), key=lambda a: a.number())
        self.arg_elements = [a.ufl_function_space().ufl_element() for a in self.arguments]
        self.coefficients = list(self.fd.reduced_coefficients)
        self.original_coefficients = list(self.fd.original_form.coefficients())
        self.constants = list(self.fd.original_form.constants())

    def targets(self):
        """All (integral_type, id) pairs the form defines; id == -1 for 'everywhere'."""
        out = []
        for itd in self.fd.integral_data:
            sid = itd.subdomain_id
            ids = sid if isinstance(sid, tuple) else (sid,)
            for i in ids:
                k = (itd.integral_type, -1 if i == "otherwise" else int(i))
                if k not in out:
                    out.append(k)
        return out

    def itds_for(self, itype, sid):
        out = []
        for itd in self.fd.integral_data:
            if itd.integral_type != itype:
                continue
            s = itd.subdomain_id
            ids = s if isinstance(s, tuple) else (s,)
            if (sid == -1 and "otherwise" in ids) or (sid != -1 and sid in ids):
                out.append(itd)
        return out

    def tensor_shape(self, itype):
        ns = 2 if itype == "interior_facet" else 1
        return tuple(e.dim * ns for e in self.arg_elements)

    def entity_cell(self, itype, entity):
        d = ENTITY_DIM[itype](self.tdim)
        if d == self.tdim:
            return self.cellname
        if d == 0:
            return "point"
        return entity_cellname(self.cellname, d, entity)

    def tensor(self, itype, sid, X, w, c, entities=(0, 0), codes=(0, 0), only_integrals=None):
        """Reference element tensor. X: per side [nodes, gdim]; w: {coefficient: per side dof vector}; c: {constant: array}."""
        sides = ("+", "-") if itype == "interior_facet" else (None,)
        shape = self.tensor_shape(itype)
        A = np.zeros(shape + (1,) * (2 - len(shape)), dtype=complex if self.cmplx else float)
        edim = ENTITY_DIM[itype](self.tdim)
        self.last_margin = np.inf
        for itd in self.itds_for(itype, sid):
            for itg in itd.integrals:
                ecell = self.entity_cell(itype, entities[0])
                pts, wts = integral_rule(itg, itype, self.cellname, ecell, self.tensor_product, self.degree_shift, self.arg_elements)
                P = {}
                for s, ent, code in zip(sides, entities, codes):
                    if itype == "cell":
                        P[s] = np.asarray(pts)
                    else:
                        if s == "-" and self.entity_cell(itype, ent) != ecell:
                            raise ValueError("facet types of the two sides differ")
                        pp = permute_points(ecell, pts, code) if itype == "interior_facet" else pts
                        P[s] = map_to_cell(self.cellname, edim, ent, pp)
                ctx = Ctx(self.cellname, itype, P, wts, self.coord_el, dict(zip(sides, X)),
                          {k: dict(zip(sides, v)) for k, v in w.items()}, c,
                          entities=dict(zip(sides, entities)), cmplx=self.cmplx, entity_dim=edim)
                vals = evaluate(itg.integrand(), ctx)
                self.last_margin = min(self.last_margin, ctx.margin)
                A = A + vals.sum(axis=0).reshape(A.shape) if vals.shape[1:] == A.shape else A + np.broadcast_to(vals.sum(axis=0), A.shape)
        return A.reshape(shape) if shape else A.reshape(())


# ---------------------------------------------------------------------------------------------------
# expressions
# ---------------------------------------------------------------------------------------------------
def preprocess_expression(expr, cmplx):
    e = ufl.algorithms.apply_algebra_lowering.apply_algebra_lowering(expr)
    e = ufl.algorithms.apply_derivatives.apply_derivatives(e)
    e = ufl.algorithms.apply_function_pullbacks.apply_function_pullbacks(e)
    e = ufl.algorithms.apply_geometry_lowering.apply_geometry_lowering(e, (Jacobian,))
    e = ufl.algorithms.apply_derivatives.apply_derivatives(e)
    e = ufl.algorithms.apply_geometry_lowering.apply_geometry_lowering(e, (Jacobian,))
    e = ufl.algorithms.apply_derivatives.apply_derivatives(e)
    if not cmplx:
        e = ufl.algorithms.remove_complex_nodes.remove_complex_nodes(e)
    return e


def expression_tensor(expr, points, X, w, c, cmplx=False, entity=None, code=0):
    """A[point][component][dof] of a UFL expression at reference points (cell points, or facet points + local facet)."""
    dom = ufl.domain.extract_unique_domain(expr)
    cellname = dom.ufl_cell().cellname
    tdim = TDIM[cellname]
    points = np.asarray(points, dtype=float)
    pe = preprocess_expression(expr, cmplx)
    if points.shape[1] == tdim:
        P = points
        itype = "cell"
        ents = {None: None}
        edim = tdim
    elif points.shape[1] == tdim - 1:
        ecell = entity_cellname(cellname, tdim - 1, entity)
        P = map_to_cell(cellname, tdim - 1, entity, permute_points(ecell, points, code))
        itype = "exterior_facet"
        ents = {None: entity}
        edim = tdim - 1
    else:
        raise NotImplementedError("point dimension")
    ctx = Ctx(cellname, itype, {None: P}, np.ones(len(P)), dom.ufl_coordinate_element(), {None: X},
              {k: {None: v} for k, v in w.items()}, c, entities=ents, cmplx=cmplx, entity_dim=edim)
    vals = evaluate_tensor(pe, ctx)  # (shape..., Q, I, J)
    nsh = len(expr.ufl_shape)
    ncomp = int(np.prod(expr.ufl_shape)) if nsh else 1
    vals = np.asarray(vals)
    full = np.broadcast_to(vals, vals.shape[:nsh] + (len(P),) + vals.shape[nsh + 1:])
    flat = full.reshape((ncomp, len(P)) + full.shape[nsh + 1:])  # [comp, Q, I, J]
    return np.moveaxis(flat, 0, 1)[..., 0] if flat.shape[-1] == 1 else np.moveaxis(flat, 0, 1)  # [Q, comp, I(,J)]
