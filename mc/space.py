"""Deviation graph over form configurations (DESIGN §0 (B), §3): nodes are recipes, an edge changes one
dimension; BFS from the baselines visits every node within Hamming radius d."""

from __future__ import annotations

import itertools

from . import forms

ELEMS = ["P1", "P2", "P3", "DG0", "DG1", "DG2", "P1+B", "vP1", "vP2", "vDG1", "symP1", "tDG1", "N1curl1", "N1curl2", "RT1", "RT2",
         "BDM1", "Regge1", "HHJ1", "CR1", "TH", "RTxDG0", "Real", "Quad2", "iso1", "S2", "Bubble", "N2curl1", "nested", "vReal", "vP1xP1"]

# dimension -> (all values [first = baseline], core values used for the second deviation at radius 2)
DIMS = {
    "geom": (["affine", "general", "p2", "manifold"], ["general", "p2", "manifold"]),
    "arity": ([2, 1, 0], [1, 0]),
    "elem": (ELEMS, ["P2", "DG1", "vP1", "N1curl1", "RT1", "TH", "symP1", "P1+B"]),
    "trial": (["P1", "P2", "DG0", "vP1", "DG1"], ["P2", "DG0"]),
    "op": (["val", "grad", "divcurl", "dx0", "dxlast", "hess", "comp", "csum"], ["grad", "dx0", "comp"]),
    "factor": (["f"] + [x for x in forms.FACTORS if x != "f"], ["one", "fg", "c0", "sqrt", "cond", "gradf", "diam", "normal", "xpoly"]),
    "wrap": (["plain", "condarg", "sum2", "neg"], ["condarg", "sum2"]),
    "quad": (["auto", "deg1", "deg6", "vertex", "GLL3", "GLL1", "two", "two1", "mix2", "same2", "cust1", "cust3"], ["deg1", "two", "two1"]),
    "subdomain": (["all", "id", "tuple", "all+id"], ["tuple", "all+id"]),
    # interior-facet baseline: jump(test) x avg(trial) - all four macro blocks [+,-]x[+,-] are populated in EVERY dS configuration, so a wrong '-' offset of any
    # element kind shows at radius 1 (with the one-sided '++' baseline only the restriction deviations of P1 reached the '-' blocks)
    "restr": (["ja", "++", "+-", "-+", "--", "jj", "aa"], ["+-", "-+", "jj", "++"]),
    "scalar": (["float64", "float32", "complex128", "complex64"], ["complex128"]),
    # "two": the test space lives on a second Mesh object of the same cells (parent mesh / codim-0 sub-mesh); key carries it only when set
    "mesh2": (["one", "two"], ["two"]),
}
CELLS = ["triangle", "interval", "quadrilateral", "tetrahedron", "hexahedron", "prism"]


def baseline(cell, itype):
    cfg = dict(cell=cell, itype=itype, geom="affine", arity=2, test="P1", trial="P1", op="val", factor="f", wrap="plain", quad="auto",
               subdomain="all", scalar="float64")
    if itype == "dS":
        cfg["restr"] = "ja"
    return cfg


def apply(cfg, dim, value):
    c = dict(cfg)
    if dim == "mesh2":
        c.pop("mesh2", None)
        if value != "one":
            c["mesh2"] = value
        return c
    if dim == "elem":
        c["test"] = c["trial"] = value
    else:
        c[dim] = value
    return c


def current(cfg, dim):
    if dim == "mesh2":
        return cfg.get("mesh2", "one")
    return cfg["test"] if dim == "elem" else cfg.get(dim)


def key(cfg):
    order = ("cell", "itype", "tp", "mesh2", "geom", "arity", "test", "trial", "op", "factor", "wrap", "quad", "subdomain", "restr", "scalar")
    return ",".join(f"{k}={cfg[k]}" for k in order if k in cfg)


def explore(baselines, radius, dims=None, exclude_dims=()):
    """BFS over the deviation graph. Returns (nodes: {key: cfg}, edges: int, by_distance: {d: count})."""
    dims = [d for d in (dims or DIMS) if d not in exclude_dims]
    nodes = {}
    edges = 0
    dist = {}
    for b in baselines:
        frontier = [(b, frozenset())]
        k0 = key(b)
        if k0 not in nodes:
            nodes[k0] = b
            dist[k0] = 0
        for d in range(1, radius + 1):
            nxt = []
            for cfg, used in frontier:
                for dim in dims:
                    if dim in used:
                        continue
                    if dim == "restr" and cfg["itype"] != "dS":
                        continue
                    if dim == "trial" and "elem" in used:
                        pass
                    allv, core = DIMS[dim]
                    vals = allv if d == 1 else core
                    for v in vals:
                        if v == current(cfg, dim):
                            continue
                        c2 = apply(cfg, dim, v)
                        edges += 1
                        k2 = key(c2)
                        if k2 not in nodes:
                            nodes[k2] = c2
                            dist[k2] = d
                        nxt.append((c2, used | {dim}))
            # avoid exponential duplicates: unique by (key, used dims)
            seen = set()
            frontier = []
            for c2, used in nxt:
                kk = (key(c2), used)
                if kk not in seen:
                    seen.add(kk)
                    frontier.append((c2, used))
    by = {}
    for k, d in dist.items():
        by[d] = by.get(d, 0) + 1
    return nodes, edges, by
