"""TLA+ model of the JIT cache protocol (tla/JitCache.tla) checked by TLC, and conformance of the model with the
implementation: EVERY maximal behaviour of the model's state graph (TLC -dump dot,actionlabels) is replayed against the real
compile_forms code under the scheduler of mc/sched.py; at every step the real process's pending operation must be the one the
model takes and at the end the outcomes must agree."""

from __future__ import annotations

import os
import re
import shutil
import subprocess
import tempfile

from . import sched

VERIF = os.path.dirname(os.path.dirname(os.path.abspath(__file__)))

# model pc label -> predicate on the real pending descriptor (module name replaced by M)
PENDING = {
    "Start": lambda d: d == ("start",),
    "Lock": lambda d: d[0] in ("open", "os.open") and d[1] == "M.c",
    "Gen": lambda d: d[0] == "gen",
    "CffiRead": lambda d: d[0] == "cffi.read",
    "CffiWrite": lambda d: d[0] == "cffi.write",
    "CffiRename": lambda d: d[0] == "cffi.rename",
    "CcWrite": lambda d: d[0] == "cc.write",
    "LdCreate": lambda d: d[0] == "ld.create",
    "LdComplete": lambda d: d[0] == "ld.complete",
    "Marker": lambda d: d[0] in ("open", "os.open") and d[1] == "M.c.cached",
    "PollStat": lambda d: d[0] == "stat" and d[1] == "M.c.cached",
    "Sleep": lambda d: d == ("sleep",),
    "FindSpec": lambda d: d[0] == "stat" and d[1].endswith(sched.SO_SUFFIX),
    "Load": lambda d: d[0] == "open" and d[1].endswith(sched.SO_SUFFIX),
}


def run_tlc(nprocs, timeout):
    """Returns (stats dict, graph: {node: [(label, proc, target)]}, init node, node labels)."""
    d = tempfile.mkdtemp(prefix="tlc_", dir="/dev/shm" if os.path.isdir("/dev/shm") else None)
    try:
        cfg = os.path.join(d, "m.cfg")
        procs = ", ".join(f"p{i}" for i in range(nprocs))
        with open(cfg, "w") as f:
            f.write(f"CONSTANTS\n  Procs = {{{procs}}}\n  Timeout = {timeout}\nINIT Init\nNEXT Next\n"
                    "INVARIANTS MutualExclusion NoPartialLoad SingleBuild MarkerImpliesComplete TimeoutOnlyWithoutMarker AllDoneOk\n")
        shutil.copy(os.path.join(VERIF, "tla", "JitCache.tla"), d)
        r = subprocess.run(["tlc", "-workers", "1", "-noGenerateSpecTE", "-metadir", os.path.join(d, "meta"), "-deadlock", "-config", cfg,
                            "-dump", "dot,actionlabels", os.path.join(d, "graph"), "JitCache.tla"], cwd=d, capture_output=True, text=True, timeout=3600)
        out = r.stdout
        ok = "No error has been found" in out
        m = re.search(r"(\d+) states generated, (\d+) distinct states found", out)
        stats = dict(ok=ok, generated=int(m.group(1)) if m else 0, distinct=int(m.group(2)) if m else 0, tail=out[-400:] if not ok else "")
        graph, labels, init = {}, {}, None
        if os.path.exists(os.path.join(d, "graph.dot")):
            for line in open(os.path.join(d, "graph.dot")):
                e = re.match(r'\s*(-?\d+) -> (-?\d+) \[label="(\w+)\((\w+)\)"', line)
                if e:
                    graph.setdefault(e.group(1), []).append((e.group(3), e.group(4), e.group(2)))
                    continue
                n = re.match(r'\s*(-?\d+) \[label="((?:[^"\\]|\\.)*)"(,style = filled)?', line)
                if n:
                    labels[n.group(1)] = n.group(2)
                    graph.setdefault(n.group(1), [])
                    if n.group(3):
                        init = n.group(1)
        return stats, graph, init, labels
    finally:
        shutil.rmtree(d, ignore_errors=True)


def count_paths(graph, init):
    memo = {}

    def f(n):
        if n in memo:
            return memo[n]
        out = graph.get(n, [])
        memo[n] = 1 if not out else sum(f(t) for _, _, t in out)
        return memo[n]

    import sys

    sys.setrecursionlimit(100000)
    return f(init)


def all_paths(graph, init):
    """Every maximal path as a list of (action, proc); iterative DFS."""
    stack = [(init, [])]
    while stack:
        n, path = stack.pop()
        out = graph.get(n, [])
        if not out:
            yield path, n
            continue
        for lab, p, t in out:
            stack.append((t, path + [(lab, p)]))


def final_results(label):
    m = re.search(r"result = \((.*?)\)", label.replace("\\n", " ").replace('\\"', '"'))
    res = {}
    if m:
        for k, v in re.findall(r'(\w+) :> "(\w+)"', m.group(1)):
            res[k] = v
    return res


def replay_paths(item):
    """Worker: replay a batch of model paths on the real code. Returns (n, failures)."""
    nprocs, timeout, paths = item
    fails = []
    n = 0
    with sched.Explorer() as E:
        mn = E.module_name("A")
        sc = sched.Scenario("tla-replay", [sched.ProcSpec(f"p{i}", "A", timeout) for i in range(nprocs)], preemptions=10 ** 9)
        for path, results in paths:
            n += 1
            pos = {"i": 0}
            mismatch = []

            def director(ex, choices):
                if pos["i"] >= len(path):
                    return None
                lab, pname = path[pos["i"]]
                pos["i"] += 1
                for ci, (pidx, action) in enumerate(choices):
                    if action == "run" and ex.procs[pidx].spec.name == pname:
                        d = tuple(x.replace(mn, "M") if isinstance(x, str) else x for x in ex.procs[pidx].pending)
                        if not PENDING[lab](d):
                            mismatch.append(f"step {pos['i']}: model takes {lab}({pname}) but the real process's pending operation is {d}")
                        return ci
                mismatch.append(f"step {pos['i']}: model takes {lab}({pname}) but that process is not enabled in the implementation")
                return None

            ex = E.execute(sc, [], director=director)
            if pos["i"] != len(path) and not mismatch:
                mismatch.append("implementation finished before the model path ended")
            real = {}
            for p in ex.procs:
                o = p.outcome
                real[p.spec.name] = "ok" if o and o[0] == "return" else ("timeout" if o and o[0] == "raise" and o[1] == "TimeoutError" else str(o))
            if not mismatch:
                if any(not p.finished or p.dead for p in ex.procs if False):
                    pass
                if real != results:
                    mismatch.append(f"outcomes differ: model {results}, implementation {real}")
                if ex.violations:
                    mismatch.append(f"implementation invariant violated on a model path: {ex.violations[0]}")
            if mismatch:
                fails.append(dict(path=[f"{a}({p})" for a, p in path], problem=mismatch[0]))
                if len(fails) >= 5:
                    break
    return n, fails


def edge_cover_paths(graph, init):
    """A set of maximal paths covering every edge of the (acyclic) state graph at least once."""
    covered = set()
    paths = []
    import sys

    sys.setrecursionlimit(100000)
    # reach[n]: some path from init to n (BFS tree)
    parent = {init: None}
    order = [init]
    for n in order:
        for lab, p, t in graph.get(n, []):
            if t not in parent:
                parent[t] = (n, lab, p)
                order.append(t)

    def prefix(n):
        out = []
        while parent[n] is not None:
            m, lab, p = parent[n]
            out.append((lab, p))
            n = m
        return out[::-1]

    def extend(n, path):
        # follow uncovered edges when possible, else the first edge, to a terminal node
        while graph.get(n):
            nxt = None
            for lab, p, t in graph[n]:
                if (n, lab, p) not in covered:
                    nxt = (lab, p, t)
                    break
            if nxt is None:
                nxt = graph[n][0]
            covered.add((n, nxt[0], nxt[1]))
            path.append((nxt[0], nxt[1]))
            n = nxt[2]
        return path, n

    for n in order:
        for lab, p, t in graph.get(n, []):
            if (n, lab, p) in covered:
                continue
            covered.add((n, lab, p))
            path, end = extend(t, prefix(n) + [(lab, p)])
            paths.append((path, end))
    return paths


def model_and_conformance(nprocs, timeout, mode, jobs):
    """mode 'all': replay every maximal behaviour; 'edges': an edge-covering set; 'none': model checking only.
    Returns dict(model stats, paths, replayed, failures)."""
    from .runner import pmap

    st, graph, init, labels = run_tlc(nprocs, timeout)
    out = dict(nprocs=nprocs, timeout=timeout, tlc_ok=st["ok"], model_states=st["distinct"], model_transitions=sum(len(v) for v in graph.values()),
               maximal_behaviours=count_paths(graph, init) if init else 0, mode=mode, replayed=0, failures=[], tlc_tail=st["tail"])
    if not st["ok"] or mode == "none":
        return out
    if mode == "all":
        plist = [(p, final_results(labels[n])) for p, n in all_paths(graph, init)]
    else:
        plist = [(p, final_results(labels[n])) for p, n in edge_cover_paths(graph, init)]
    batch = max(50, len(plist) // (jobs * 4) + 1)
    items = [(nprocs, timeout, plist[i:i + batch]) for i in range(0, len(plist), batch)]
    for it, (n, fails) in pmap(replay_paths, items, jobs=jobs):
        out["replayed"] += n
        out["failures"] += fails
    return out
