"""Generates /verif/MANIFEST.json from the table below (run: /venv/bin/python -m mc.manifest)."""
import json
import os

VERIF = os.path.dirname(os.path.dirname(os.path.abspath(__file__)))

# pid -> (engine, technique, level text, level note, design ref)
CLAIMED = {
    "C14": ("jit-explorer", "stateless model checking with state hashing: all interleavings of the FS steps of the real compile_forms within a preemption bound",
            "Every interleaving (preemption-bounded, bound stated in the evidence) of 2-4 real compile_forms requests over a real tmpfs cache directory is "
            "executed and the mutual-exclusion / no-partial-load / single-build / reuse invariants are evaluated in every state; the builder and loader stubs "
            "are bound to cffi and the real loader by an strace of a real build and by real concurrent processes on every run.",
            "Scheduling points are FS operations and sleeps; the cffi builder and extension loader are stubs validated against strace; more than 4 requests or more than 3 preemptions are not explored.",
            "DESIGN.md §4 C14, §2.5, Appendix A"),
    "C15": ("jit-explorer", "stateless model checking with fault/kill injection: every crash point and fault position of the real compile_forms x interleavings x later-request sequences",
            "Every kill point of the builder (SIGKILL semantics) and every fault position (code generation, each builder step, marker creation) is crossed with every "
            "preemption-bounded interleaving and the listed sequences of later requests on the real compile_forms code; lock-release, no-partial-load and outcome invariants "
            "are evaluated in every state. Process-global state and SIGKILL behaviour are additionally re-enacted with real cffi / real processes for every failure kind and every real kill step.",
            "Same trusted base as C14 (stub builder/loader bound by strace and real runs); fault budget <= 2, kill budget <= 2, later-request sequences <= 2 deep; "
            "environment actors other than requests (a user cleaning the cache) are not modelled.",
            "DESIGN.md §4 C15, §2.5, Appendix A"),
}

NOT_YET = "check not built yet in this session (planned, see DESIGN.md §8); not claimed until its command exists"


def main():
    props = [json.loads(l) for l in open(os.path.join(VERIF, "properties.jsonl"))]
    checks, na = [], []
    for p in props:
        pid = p["id"]
        if pid in CLAIMED:
            eng, tech, text, note, ref = CLAIMED[pid]
            checks.append({
                "property_id": pid,
                "quick_cmd": f"VERIF_TIER=quick ./check {pid}",
                "thorough_cmd": f"VERIF_TIER=thorough ./check {pid}",
                "evidence_file": f"/verif/evidence/{pid}.json",
                "replay_cmd_template": f"./check {pid} --replay {{path}}",
                "engine": eng,
                "level_claimed": {"category": "model_checking", "text": text, "design_ref": ref},
                "level_note": note,
                "technique": tech,
            })
        else:
            na.append({"property_id": pid, "reason": NA.get(pid, NOT_YET)})
    m = {
        "version": 1,
        "setup_cmd": "chmod +x /verif/check && /venv/bin/python -c \"import ffcx, basix, ufl, cffi, pycparser\"",
        "hooks": {
            "guard": "FFCX_VERIF",
            "enable": "no source hooks: every seam is rebound from outside (see DESIGN.md §1); ./check exports FFCX_VERIF=1 for uniformity",
            "baseline_off_cmd": "cd /repo && /venv/bin/python -m pytest -q -p no:cacheprovider --timeout=900 test",
            "source_commits": [],
            "add_only": True,
        },
        "engines": ENGINES,
        "checks": checks,
        "not_applicable": na,
        "notes": "All checks run /repo's working tree through /venv (editable install). Known findings: /verif/known_findings.json. "
                 "Seeded property-breaking changes and which checks catch them: /verif/seeded, /verif/mutants, DESIGN.md §6.",
    }
    with open(os.path.join(VERIF, "MANIFEST.json"), "w") as f:
        json.dump(m, f, indent=1)
        f.write("\n")


NA = {}
ENGINES = [
    {"name": "jit-explorer", "path": "mc/sched.py", "serves_properties": ["C14", "C15"],
     "kind_free_text": "explicit-state / stateless explorer of the real JIT protocol code under a cooperative scheduler with FS interposition, kill and fault injection"},
]

if __name__ == "__main__":
    main()
