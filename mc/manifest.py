"""Generates /verif/MANIFEST.json from the table below (run: /venv/bin/python -m mc.manifest)."""
import json
import os

VERIF = os.path.dirname(os.path.dirname(os.path.abspath(__file__)))

# pid -> (engine, technique, level text, level note, design ref)
CLAIMED = {
    "C14": ("jit-explorer", "stateless model checking with state hashing: all interleavings of the FS steps of the real compile_forms within a preemption bound",
            "Every interleaving (preemption-bounded, bound stated in the evidence) of 2-4 real compile_forms requests over a real tmpfs cache directory is "
            "executed and the mutual-exclusion / no-partial-load / single-build / reuse invariants are evaluated in every state; the builder and loader stubs "
            "are bound to cffi and the real loader by an strace of a real build and by real concurrent processes on every run.",
            "Scheduling points are FS operations and sleeps; the cffi builder and extension loader are stubs validated against strace; more than 4 requests or more than 3 preemptions are not explored.",
            "DESIGN.md §4 C14, §2.5, Appendix A"),
    "C15": ("jit-explorer", "stateless model checking with fault/kill injection: every crash point and fault position of the real compile_forms x interleavings x later-request sequences",
            "Every kill point of the builder (SIGKILL semantics) and every fault position (code generation, each builder step, marker creation; exceptions with and without arguments) is crossed with every "
            "preemption-bounded interleaving and the listed sequences of later requests on the real compile_forms code; lock-release, no-partial-load and outcome invariants "
            "are evaluated in every state. Process-global state and SIGKILL behaviour are additionally re-enacted with real cffi / real processes for every failure kind and every real kill step.",
            "Same trusted base as C14 (stub builder/loader bound by strace and real runs); fault budget <= 2, kill budget <= 2, later-request sequences <= 2 deep; "
            "environment actors other than requests (a user cleaning the cache) are not modelled.",
            "DESIGN.md §4 C15, §2.5, Appendix A"),
    "C01": ("oracle-engine", "bounded-exhaustive exploration of a deviation graph of form configurations against a reference model (explicit-state BFS, radius-bounded)",
            "Every configuration within Hamming radius d (1 quick, 2 thorough) of the dx baseline of each of the 6 cell types over 13 dimensions (geometry class, arity, element, operator, "
            "factor, wrapping, quadrature, subdomains, scalar type, one/two meshes) is compiled through the public JIT entry point and every kernel is compared with an independent reference-space "
            "evaluator R on 3 geometry instances; R is anchored on closed-form monomial integrals on every run.",
            "Continuous inputs come from a finite alphabet (geometry instances x one seeded data draw); program space = the grammar of DESIGN §3; R trusts UFL preprocessing, core basix and numpy.",
            "DESIGN.md §4 C01, §2.2, §3"),
    "C02": ("oracle-engine", "bounded-exhaustive exploration (deviation graph x every local entity x permutation-code pairs) against a reference model",
            "Deviation graph around the ds/dS/dP baselines of every cell; per configuration every local entity index (every ordered pair of equal-type facets for dS, prisms' mixed facet types for ds) "
            "and the permutation-code pairs are enumerated and each kernel call is compared with R, which implements the macro layout of ufcx.h independently.",
            "As C01; quick tier enumerates the full code product in 1D/2D and a covering set in 3D (stated in the evidence), thorough the full product; the '-' cell geometry is independent of '+'.",
            "DESIGN.md §4 C02"),
    "C03": ("numbering-explorer", "exhaustive enumeration of all pairs of local numberings x all physically aligning permutation-code pairs on the real kernels",
            "For two affine cells sharing a facet ALL pairs of valid local numberings (4/36/64/576/2304) are enumerated; the harness finds geometrically every code pair that aligns the facet "
            "points and each kernel call must reproduce the identity-numbering value and an independent physical-space quadrature; flag-false kernels must be code-independent on all facet and code pairs.",
            "Affine cells, Lagrange/DG elements of degree <= 2 (no DOF transformations); polynomial integrands (on tensor cells incl. the bilinear terms Q1 holds) so the rules are exact; default, GLL and Gauss-Jacobi facet rules; permutation convention as written in mc/oracle.py.",
            "DESIGN.md §4 C03"),
    "C05": ("oracle-engine", "exhaustive enumeration of coefficient-usage patterns over integrals with NaN-poisoning of disabled coefficients, against a reference model",
            "All assignments of non-empty coefficient-subset patterns to 1-3 integrals of different type/id and to 2-3 integrals with different quadrature rules inside one (type, id) group (plus derivative/cancellation/constant-usage forms) are compiled; per kernel every "
            "coefficient flagged disabled is NaN-poisoned, data is packed through original_coefficient_positions and the original constant order, and the result must equal R keyed by the UFL objects.",
            "A dead read of a disabled coefficient that cannot reach A is not observable; data alphabet as C01.",
            "DESIGN.md §4 C05"),
    "C04": ("oracle-engine", "bounded-exhaustive exploration of expression recipes x point sets x every (facet, permutation code) against a reference model",
            "Deviation graph over expression recipes (cell, geometry class, scalar/vector/tensor kind, argument element and operator, point set, scalar type); facet point sets are evaluated for "
            "every local facet and every permutation code; kernel output (on pre-filled A) must equal R's A[point][component][dof]; descriptor fields are recomputed from the UFL expression.",
            "R in expression mode uses its own sequence of UFL preprocessing passes and core basix; continuous inputs from the alphabet.",
            "DESIGN.md §4 C04"),
    "C07": ("lvm+schedules", "exhaustive call-sequence enumeration on the compiled kernels + complete LVM write trace + schedule exploration (preemption-bounded) over shared static objects",
            "Per kernel of the corpus (integrals and expressions): all call sequences of length <= 3 over two input sets on two pre-filled A buffers against A <- A + T; complete write trace of the "
            "captured L-AST (only '+=' into A, no read of A, inputs never written); static-storage scan of the C text; all interleavings (bound 1/2) of two invocations at accesses to shared static "
            "objects - one trace when none exists; free-running OS threads on the compiled kernel.",
            "Machine-level C interleavings are not enumerable; the LVM is bound to the compiled kernel by a conformance run on every kernel; thread pass is a check, not a proof.",
            "DESIGN.md §4 C07, §2.3"),
    "C08": ("lvm", "exhaustive execution of the captured L-AST over all entity/permutation values with per-access extent checking (explicit enumeration of every loop iteration)",
            "For every kernel of the corpus the LVM executes the captured AST for all valid entity and permutation values (full product up to 64/2500, else a family covering every value of every index) "
            "and checks every access of every loop iteration per dimension against declared table sizes and harness-computed extents; NULL entity/permutation pointers where the contract allows; "
            "the compiled kernel runs on the same inputs inside NaN/canary moats and must agree; thorough adds clang ASan/UBSan builds with exact-size heap buffers.",
            "Index expressions are data independent (checked implicitly by LVM/C agreement); kernels above the access budget are covered by moats/ASan only (counted in evidence).",
            "DESIGN.md §4 C08, §2.3"),
    "C09": ("oracle-engine", "bounded-exhaustive exploration: corpus x all four scalar types x {real, complex} data and every math-table entry, against the reference model",
            "Every configuration of the C09 corpus, every math-table entry x arity and every unary math function applied to a real-typed AND a complex-typed operand inside one kernel is compiled for float64/float32/complex128/complex64; on real data all must agree with R within their "
            "precision, on complex data the complex kernels must equal R in complex arithmetic with UFL's conjugate placement.",
            "Complex data keeps principal branches unambiguous; single precision compared at 3e-4.",
            "DESIGN.md §4 C09"),
    "C10": ("oracle-engine", "bounded-exhaustive metamorphic exploration: corpus x option settings, default-option kernel as oracle",
            "For every configuration of the C10 corpus the form is compiled with default options and with sum_factorization / part=diagonal / a table-tolerance grid, and the outputs are compared "
            "call by call on identical inputs (every entity, code pairs as C02 quick): equality to rounding, diag(full) - incl. every vector/mixed element under operators that couple its components -, |delta| <= 100(rtol+atol); options applied where they do not apply must be no-ops.",
            "Tensor rule verified identical to the default rule for degrees 0..30; default-option kernels themselves are checked against R in C01/C02.",
            "DESIGN.md §4 C10"),
    "C06": ("oracle-engine", "exhaustive enumeration of all integral sequences up to a length over a (type, id-set, rule) alphabet against a dispatch model",
            "All ordered sequences of <= 2 (quick: reduced pair alphabet) / <= 3 integrals over {dx, ds, dS, dP} x {everywhere, 0, 2, (0,2)} x {auto, degree 2} on a triangle and on a prism, "
            "each integral carrying the weight 2^k, plus all ordered triples over six interleaving id sets with equal / partly equal integrands (UFL merges those into tuple-id groups, so the IR's id order is a non-trivial permutation of the sorted order); for every (type, id) the listed kernels applied in sequence must add exactly R's sum of the declared integrands; all descriptor fields "
            "(offsets, ids, counts, shapes, hashes, cell-type tags) are recomputed from the form; several forms per module.",
            "Dispatch is judged through the documented lookup (offset range, id, cell-type tag); name maps are covered by C20.",
            "DESIGN.md §4 C06"),
    "C11": ("oracle-engine", "exhaustive enumeration of the finite space cell x degree 0..30 x scheme with every monomial, and of rule pairs, against closed forms and R",
            "Per (cell, degree, scheme, integral type) a functional whose Constant vector selects every monomial of degree q and q-1 in turn is compiled; kernel values on the reference cell "
            "and an affine image (every facet for ds) must equal the exact integrals; the weights table in the captured AST must be the basix rule, itself checked against all monomials <= q in closed form; "
            "ordered pairs of degrees on one subdomain (different integrands, and the SAME integrand under two rules incl. named-scheme / vertex partners), metadata-free polynomial forms vs degree+4, vertex scheme, "
            "user-supplied 'custom' rules (alone, sharing points with another rule, on facets) and quadrature elements alone and beside other rules are compared with R.",
            "Affine-image truth uses basix rules of higher degree that are anchored on closed forms in the same run; quick tier limits 3D degrees (stated in evidence).",
            "DESIGN.md §4 C11"),
    "C16": ("parsers", "exhaustive enumeration of all AST trees of depth <= 2 plus all depth-3 operator chains, formatted and parsed back (pycparser / Python ast)",
            "Every expression tree of depth <= 2 over all node kinds (n-ary nodes with 1-3 operands) in every operand position and every depth-3 chain is formatted by the C formatter (float64, complex128) and the numba "
            "formatter, parsed back under the target grammar and compared structurally with the L tree; statement kinds and whole captured kernel bodies likewise; a literal grid must read back within 1 ulp as a floating constant, as an expression literal and through array initialisers (float64 and float32 tables); integer and floating constants are distinct trees.",
            "pycparser stands for the C grammar and ast.parse for Python; function names need only be the table entry or the bare name.",
            "DESIGN.md §4 C16, §2.4"),
    "C17": ("lvm", "exhaustive enumeration of operator x operand-kind pairs and index shapes; optimiser passes on/off compared on the compiled kernels over the corpus",
            "All pairs of operand kinds for every overloaded operator (incl. reflected forms, near-0/near-1 floats, ints) are evaluated against the unsimplified node under C semantics, in fresh interpreters "
            "under four priming histories of as_lexpr; ALL depth-2 compositions (ordered triples of kinds x operator pairs x both sides) built through the overloads at both levels against the tree of plain nodes; float_product on all "
            "subsets; MultiIndex flattening for all small shapes and index values; every corpus kernel is compiled with the optimiser passes enabled and with each/all disabled and must agree on every entity/code pair.",
            "Folding compared exactly on three symbol environments; optimiser variants compared to 1e-11 (floating-point reassociation).",
            "DESIGN.md §4 C17"),
    "C12": ("history-runner", "stateless exhaustive enumeration of all histories up to a depth x hash seeds, one fresh process each",
            "All histories of depth <= 2 (quick) / <= 3 (thorough) over a 12-letter alphabet of prior actions (object creation, other compilations incl. numba/JIT/macro elements/shared option dicts/named quadrature schemes/part=diagonal, "
            "the targets themselves under loose table tolerances and float32, numpy print options) x PYTHONHASHSEED values are executed in fresh processes; afterwards 12 targets are generated in rotated order and compared byte for byte with the empty-history seed-0 text.",
            "Histories and seeds are bounded sets; later targets in a process are observed under the correspondingly longer histories.",
            "DESIGN.md §4 C12, §2.6"),
    "C13": ("history-runner", "exhaustive enumeration: all pairs of a request catalogue, all ordered in-process request pairs, all histories x seeds, option-source combinations",
            "Names are obtained from the real compile_forms/compile_expressions path (cache lookup intercepted). All pairs of 46 catalogue requests: differing source or build flags => differing module names; "
            "all ordered pairs of 8 expression requests as in-process two-step histories (named, released, then the other) must reproduce the fresh names; histories x hash seeds in fresh processes; "
            "the same option through pwd/user json vs API; multi-object requests are built with gcc (distinct valid identifiers).",
            "'Would generate different kernels' = generated source with hashes normalised + compiler flags; bounded histories and seeds.",
            "DESIGN.md §4 C13"),
    "C18": ("oracle-engine", "bounded-exhaustive exploration: corpus x entity/code values, numba module executed against the compiled C kernel",
            "For every configuration of the form corpus, every math-table entry and every expression recipe the numba module is executed as plain Python (numba.carray shim) and each kernel is compared "
            "with the compiled C kernel on identical inputs for every entity/code pair; the text must be valid Python, declared array sizes must equal the contract's extents, descriptors must be equal field by field.",
            "Plain-Python execution stands for numba.cfunc; slow kernels are skipped and counted.",
            "DESIGN.md §4 C18"),
    "C19": ("oracle-engine", "exhaustive outcome classification of the corpus + unsupported-construct alphabet + complete enumeration of quadrature-rule pairs",
            "Every compile request (form corpus, expression corpus, unsupported constructs in each slot, edge forms) is classified by observed outcome (rejected before the compiler / accepted under "
            "-std=c17 -Werror=implicit-function-declaration / compiler failed / hang); rejections must be on a committed list of legitimate ones; all pairs of quadrature rules per cell type "
            "(degrees 0..30 x schemes + vertex) must have distinct ids, colliding pairs and a covering sample are compiled.",
            "Supported fragment = grammar of DESIGN §3 minus mc/data/c19_rejections.json; valid C = gcc through the real cffi build.",
            "DESIGN.md §4 C19"),
    "C20": ("cli-runner", "exhaustive enumeration of option-source combinations (3^3 per option), of command-line variants per UFL file and of in-process invocation sequences up to a length",
            "All demo files and generated files x command-line variants: expected files, stand-alone gcc -std=c17, header externs vs nm, aliases resolved through cffi ABI mode, every kernel vs the JIT "
            "kernel, name maps vs the UFL file, numba output parses; every option in all 27 combinations of {absent, v1, v2} over {command line, pwd json, user json} in fresh processes must obey CLI > pwd > user > default; "
            "all sequences of <= 2 (thorough: 3) command-line invocations over a 7-letter alphabet inside ONE interpreter must write what each invocation writes alone.",
            "Kernels compared with the JIT path on random data (no reference model here); effective options read from the generated file's option dump.",
            "DESIGN.md §4 C20"),
}

NOT_YET = "check not built yet in this session (planned, see DESIGN.md §8); not claimed until its command exists"


def main():
    props = [json.loads(l) for l in open(os.path.join(VERIF, "properties.jsonl"))]
    checks, na = [], []
    for p in props:
        pid = p["id"]
        if pid in CLAIMED:
            eng, tech, text, note, ref = CLAIMED[pid]
            checks.append({
                "property_id": pid,
                "quick_cmd": f"VERIF_TIER=quick ./check {pid}",
                "thorough_cmd": f"VERIF_TIER=thorough ./check {pid}",
                "evidence_file": f"/verif/evidence/{pid}.json",
                "replay_cmd_template": f"./check {pid} --replay {{path}}",
                "engine": eng,
                "level_claimed": {"category": "model_checking", "text": text, "design_ref": ref},
                "level_note": note,
                "technique": tech,
            })
        else:
            na.append({"property_id": pid, "reason": NA.get(pid, NOT_YET)})
    m = {
        "version": 1,
        "setup_cmd": "chmod +x /verif/check && /venv/bin/python -c \"import ffcx, basix, ufl, cffi, pycparser\"",
        "hooks": {
            "guard": "FFCX_VERIF",
            "enable": "no source hooks: every seam is rebound from outside (see DESIGN.md §1); ./check exports FFCX_VERIF=1 for uniformity",
            "baseline_off_cmd": "cd /repo && /venv/bin/python -m pytest -q -p no:cacheprovider --timeout=900 test",
            "source_commits": [],
            "add_only": True,
        },
        "engines": ENGINES,
        "checks": checks,
        "not_applicable": na,
        "notes": "All checks run /repo's working tree through /venv (editable install). Known findings: /verif/known_findings.json. "
                 "Seeded property-breaking changes and which checks catch them: /verif/seeded, /verif/mutants, DESIGN.md §6.",
    }
    with open(os.path.join(VERIF, "MANIFEST.json"), "w") as f:
        json.dump(m, f, indent=1)
        f.write("\n")


NA = {}
ENGINES = [
    {"name": "history-runner", "path": "mc/hist.py", "serves_properties": ["C12", "C13"],
     "kind_free_text": "executes operation histories in fresh interpreters with chosen hash seeds, private cwd/XDG dirs, and observes generated text and names"},
    {"name": "cli-runner", "path": "mc/checks/C20.py", "serves_properties": ["C20"],
     "kind_free_text": "drives python -m ffcx in private directories, builds and links the output stand-alone, compares with the JIT path"},
    {"name": "parsers", "path": "mc/cparse.py", "serves_properties": ["C16", "C18"],
     "kind_free_text": "pycparser / Python-ast based parse-back of formatted text into a normal form shared with the L-AST"},
    {"name": "lvm", "path": "mc/lvm.py", "serves_properties": ["C07", "C08", "C17"],
     "kind_free_text": "capture of the L-AST actually formatted + interpreter (AST -> Python) with per-access tracing; bound to the compiled C kernel by conformance runs"},
    {"name": "lvm+schedules", "path": "mc/checks/C07.py", "serves_properties": ["C07"],
     "kind_free_text": "call-sequence enumeration on compiled kernels and baton-scheduled interleaving of LVM invocations over shared static objects"},
    {"name": "oracle-engine", "path": "mc/engine.py", "serves_properties": ["C01", "C02", "C04", "C05", "C09", "C10", "C11"],
     "kind_free_text": "deviation-graph BFS over form configurations (mc/space.py), real JIT compilation, moated kernel calls, independent reference model R (mc/oracle.py)"},
    {"name": "numbering-explorer", "path": "mc/checks/C03.py", "serves_properties": ["C03"],
     "kind_free_text": "exhaustive enumeration of local numbering pairs and aligning permutation codes with an independent physical-space evaluator"},
    {"name": "jit-explorer", "path": "mc/sched.py", "serves_properties": ["C14", "C15"],
     "kind_free_text": "explicit-state / stateless explorer of the real JIT protocol code under a cooperative scheduler with FS interposition, kill and fault injection"},
]

if __name__ == "__main__":
    main()
