"""Bounded-exhaustive engine shared by the (B) checks: geometry/data alphabets, compilation through the public
JIT entry point, kernel calls with moated buffers, comparison with the reference model R (DESIGN §2.1-2.2)."""

from __future__ import annotations

import itertools
import os
import shutil
import tempfile

import basix
import cffi
import numpy as np
import ufl

from . import forms, oracle
from .runner import scratch_root

FFI = cffi.FFI()
SCALARS = ("float64", "float32", "complex128", "complex64")
CTYPE = {"float64": "double", "float32": "float", "complex128": "double _Complex", "complex64": "float _Complex"}
RTYPE = {"float64": "double", "float32": "float", "complex128": "double", "complex64": "float"}
RDTYPE = {"float64": np.float64, "float32": np.float32, "complex128": np.float64, "complex64": np.float32}
TOL = {"float64": 1e-10, "complex128": 1e-10, "float32": 3e-4, "complex64": 3e-4}
UFCX_TYPES = ("cell", "exterior_facet", "interior_facet", "vertex", "ridge")
ITYPE = {"dx": "cell", "ds": "exterior_facet", "dS": "interior_facet", "dP": "vertex"}
CANARY = 12345.678


class Rejected(Exception):
    """FFCx (or UFL on FFCx's behalf) refused the input with a Python exception before any C compiler ran."""


# ---------------------------------------------------------------------------------------------------
# geometry alphabet
# ---------------------------------------------------------------------------------------------------
def reference_nodes(mesh):
    ce = mesh.ufl_coordinate_element()
    return np.asarray(ce._sub_element._element.points)


_AFF = {
    1: np.array([[1.7]]),
    2: np.array([[1.3, 0.4], [-0.2, 0.9]]),
    3: np.array([[1.2, 0.3, -0.1], [0.2, 0.8, 0.25], [-0.15, 0.1, 1.1]]),
}
_EMB = {  # gdim x tdim embeddings for manifolds
    (2, 1): np.array([[0.8], [0.6]]) * 1.5,
    (3, 2): np.array([[1.1, 0.2], [0.3, 0.9], [0.4, -0.5]]),
}


def geometry_instances(mesh, cell, geom, rng, instances=("ref", "aff", "rev")):
    """List of (label, X[nodes, gdim]) for one geometry class; all non-degenerate by construction."""
    ref = reference_nodes(mesh)
    nn, tdim = ref.shape
    gdim = mesh.geometric_dimension
    out = []
    for inst in instances:
        if gdim == tdim:
            M = np.eye(tdim)
            b = np.zeros(gdim)
            if inst in ("aff", "rev"):
                M = _AFF[tdim].copy()
                b = np.array([0.3, -0.2, 0.5])[:gdim]
            if inst == "rev":
                M[:, 0] *= -1.0
        else:
            M = np.eye(gdim, tdim) if inst == "ref" else _EMB[(gdim, tdim)].copy()
            b = np.zeros(gdim) if inst == "ref" else np.array([0.3, -0.2, 0.5])[:gdim]
            if inst == "rev":
                M[:, 0] *= -1.0
        P = ref.copy()
        if geom in ("general", "p2") or (geom == "manifold" and inst != "ref" and False):
            amp = 0.10 if geom == "general" else 0.05
            pert = rng.uniform(-amp, amp, size=ref.shape)
            if geom == "p2" and cell in forms.SIMPLEX:
                # keep vertices, move higher-order nodes only (curved edges)
                pert[: tdim + 1] = 0.0
            P = ref + pert
        X = P @ M.T + b
        out.append((inst, X))
    return out


# ---------------------------------------------------------------------------------------------------
# compiled form wrapper
# ---------------------------------------------------------------------------------------------------
class Compiled:
    def __init__(self, form, scalar, options=None, cache_dir=None):
        import ffcx.codegeneration.jit as jit

        self.scalar = scalar
        opts = dict(options or {})
        opts["scalar_type"] = scalar
        self.cache = cache_dir or tempfile.mkdtemp(prefix="jit_", dir=scratch_root())
        self.compiler_invoked = False
        orig = jit.cffi.FFI.compile

        def spy(ffi_self, *a, **k):
            self.compiler_invoked = True
            return orig(ffi_self, *a, **k)

        jit.cffi.FFI.compile = spy
        try:
            (self.obj,), self.module, self.code = jit.compile_forms([form], options=opts, cache_dir=self.cache)
        finally:
            jit.cffi.FFI.compile = orig
        f = self.obj
        self.offsets = [f.form_integral_offsets[i] for i in range(len(UFCX_TYPES) + 1)]
        self.n = self.offsets[-1]
        self.ids = [f.form_integral_ids[k] for k in range(self.n)]
        self.kernels = [f.form_integrals[k] for k in range(self.n)]
        self.rank = f.rank
        self.num_coefficients = f.num_coefficients
        self.positions = [f.original_coefficient_positions[i] for i in range(f.num_coefficients)]
        self.num_constants = f.num_constants

    def kernels_for(self, itype, sid):
        t = UFCX_TYPES.index(itype)
        return [k for k in range(self.offsets[t], self.offsets[t + 1]) if self.ids[k] == sid]

    def cleanup(self):
        shutil.rmtree(self.cache, ignore_errors=True)


def moat(data, pad, fill):
    buf = np.full(len(data) + 2 * pad, fill, dtype=data.dtype)
    buf[pad:pad + len(data)] = data
    return buf


class Call:
    """Buffers of one kernel call: inputs surrounded by NaN, A by canaries; everything verified after the call."""

    PAD = 16

    def __init__(self, scalar, A0, w, c, X, ent, perm, null_entity=False):
        dt = np.dtype(scalar)
        rdt = RDTYPE[scalar]
        P = self.PAD
        self.scalar = scalar
        nanv = np.nan if dt.kind != "c" else complex(np.nan, np.nan)
        # the moat around A is as wide as A itself (at least 64 entries): a wrong stride or offset lands in the canaries, not in the heap
        self.PA = max(64, int(np.asarray(A0).size))
        self.A = moat(np.asarray(A0, dtype=dt).ravel(), self.PA, CANARY)
        self.w = moat(np.asarray(w, dtype=dt).ravel(), P, nanv)
        self.c = moat(np.asarray(c, dtype=dt).ravel(), P, nanv)
        self.X = moat(np.asarray(X, dtype=rdt).ravel(), P, np.nan)
        self.ent = moat(np.asarray(ent, dtype=np.intc).ravel(), P, 2**30)
        self.perm = moat(np.asarray(perm, dtype=np.uint8).ravel(), P, 255)
        self.null_entity = null_entity
        self.copies = [b.copy() for b in (self.w, self.c, self.X, self.ent, self.perm)]
        self.nA = len(np.asarray(A0).ravel())

    def run(self, kernel):
        P = self.PAD
        ct, rt = CTYPE[self.scalar], RTYPE[self.scalar]
        fn = getattr(kernel, "tabulate_tensor_" + self.scalar)

        def ptr(t, b, itemsize):
            return FFI.cast(t + "*", b.ctypes.data + P * itemsize)

        fn(FFI.cast(ct + "*", self.A.ctypes.data + self.PA * self.A.itemsize), ptr(ct, self.w, self.w.itemsize), ptr(ct, self.c, self.c.itemsize),
           ptr(rt, self.X, self.X.itemsize),
           FFI.NULL if self.null_entity else ptr("int", self.ent, 4),
           FFI.NULL if self.null_entity else ptr("uint8_t", self.perm, 1), FFI.NULL)

    def result(self):
        return self.A[self.PA:self.PA + self.nA].copy()

    def breaches(self):
        """Writes outside A's extent or into inputs."""
        out = []
        P = self.PA
        if not (np.all(self.A[:P] == CANARY) and np.all(self.A[P + self.nA:] == CANARY)):
            out.append("write outside the extent of A")
        for name, b, c0 in zip(("w", "c", "coordinate_dofs", "entity_local_index", "quadrature_permutation"),
                               (self.w, self.c, self.X, self.ent, self.perm), self.copies):
            if b.tobytes() != c0.tobytes():
                out.append(f"input {name} was written")
        return out


# ---------------------------------------------------------------------------------------------------
# data alphabet
# ---------------------------------------------------------------------------------------------------
def draw_data(fo: oracle.FormOracle, rng, sides, cmplx_data=False):
    w = {}
    for cf in fo.original_coefficients:
        n = cf.ufl_element().dim
        vals = []
        for _ in sides:
            v = rng.uniform(0.6, 1.4, size=n)
            if cmplx_data:
                v = v + 1j * rng.uniform(-0.3, 0.3, size=n)
            vals.append(v)
        w[cf] = vals
    c = {}
    for k in fo.constants:
        v = rng.uniform(0.5, 1.5, size=k.ufl_shape or (1,))
        if cmplx_data:
            v = v + 1j * rng.uniform(-0.3, 0.3, size=v.shape)
        c[k] = v
    return w, c


def pack(fo: oracle.FormOracle, comp: Compiled, w, c, sides, poison_disabled_for=None):
    """Pack w/c per the documented contract (original_coefficient_positions, original constant order)."""
    orig = fo.original_coefficients
    parts = []
    for j, pos in enumerate(comp.positions):
        cf = orig[pos]
        vals = [np.asarray(v) for v in w[cf]]
        if poison_disabled_for is not None and not poison_disabled_for.enabled_coefficients[j]:
            vals = [np.full(v.shape, np.nan) for v in vals]
        parts += vals
    wv = np.concatenate(parts) if parts else np.zeros(0)
    cv = np.concatenate([np.asarray(c[k]).ravel() for k in fo.constants]) if fo.constants else np.zeros(0)
    return wv, cv


def pack_geometry(Xs):
    out = []
    for X in Xs:
        X3 = np.zeros((X.shape[0], 3))
        X3[:, : X.shape[1]] = X
        out.append(X3.ravel())
    return np.concatenate(out)


def rel_err(A, R):
    R = np.asarray(R)
    A = np.asarray(A).reshape(R.shape)
    scale = float(np.max(np.abs(R))) if R.size else 0.0
    # geometry and data of the alphabets are O(1): a reference below 1e-6 is judged on an absolute scale (rounding noise around an exact zero)
    return float(np.max(np.abs(A - R))) / max(scale, 1e-6) if R.size else 0.0, scale


# ---------------------------------------------------------------------------------------------------
# entity / permutation enumeration
# ---------------------------------------------------------------------------------------------------
def entity_choices(fo: oracle.FormOracle, itype, mode="full"):
    """All (entities, codes) combinations valid for the integral type.

    mode 'full': full product; 'sweep': all entity tuples x (each side's codes swept with the other at 0, plus equal codes).
    """
    cell = fo.cellname
    tdim = fo.tdim
    if itype == "cell":
        return [((0, 0), (0, 0))]
    if itype == "vertex":
        return [((v, 0), (0, 0)) for v in range(oracle.num_entities(cell, 0))]
    nf = oracle.num_entities(cell, tdim - 1)
    if itype == "exterior_facet":
        return [((f, 0), (0, 0)) for f in range(nf)]
    out = []
    if (mode == "quick" and tdim == 3) or (mode == "full-light" and cell == "hexahedron"):
        # (the full product on hexahedra is 36 facet pairs x 64 code pairs per geometry instance: the covering family is used in every tier)
        # every ordered facet pair under two code pairs; the full code product on two facet pairs
        full_on = {(0, nf - 1)}
        for f0, f1 in itertools.product(range(nf), repeat=2):
            e0, e1 = oracle.entity_cellname(cell, tdim - 1, f0), oracle.entity_cellname(cell, tdim - 1, f1)
            if e0 != e1:
                continue
            nc = oracle.num_permutation_codes(e0)
            codes = list(itertools.product(range(nc), repeat=2)) if (f0, f1) in full_on else [(0, 0), (nc - 1, 1)]
            out += [((f0, f1), cd) for cd in codes]
        return out
    if mode in ("quick", "full-light"):
        mode = "full"
    for f0, f1 in itertools.product(range(nf), repeat=2):
        e0, e1 = oracle.entity_cellname(cell, tdim - 1, f0), oracle.entity_cellname(cell, tdim - 1, f1)
        if e0 != e1:
            continue
        nc = oracle.num_permutation_codes(e0)
        if mode == "full":
            codes = list(itertools.product(range(nc), repeat=2))
        else:
            codes = sorted({(a, 0) for a in range(nc)} | {(0, b) for b in range(nc)} | {(a, a) for a in range(nc)} | {(a, nc - 1 - a) for a in range(nc)})
        out += [((f0, f1), cd) for cd in codes]
    return out


# ---------------------------------------------------------------------------------------------------
# one configuration: build, compile, run every (type, id) x geometry x entity x code, compare with R
# ---------------------------------------------------------------------------------------------------
def check_form_against_oracle(form, mesh, cell, geom, scalar, options, seed, entity_mode="sweep", instances=("ref", "aff", "rev"),
                              cmplx_data=None, max_calls=None, keep=False, poison=False, check_positions=False, oracle_degree_shift=0, comp=None):
    """Returns dict(status, evaluations, nontrivial, maxerr, failures=[...], notes)."""
    cmplx = "complex" in scalar
    if cmplx_data is None:
        cmplx_data = cmplx
    res = dict(status="ok", evaluations=0, nontrivial=0, maxerr=0.0, failures=[], tolerance_induced=0, kernels=0)
    try:
        fo = oracle.FormOracle(form, cmplx=cmplx, tensor_product=bool((options or {}).get("sum_factorization")), degree_shift=oracle_degree_shift)
    except Exception as e:
        res["status"] = "rejected"
        res["why"] = f"UFL: {type(e).__name__}: {str(e)[:120]}"
        return res
    given_comp = comp is not None
    if given_comp:
        keep = True
    try:
        try:
            if comp is None:
                comp = Compiled(form, scalar, options)
        except Exception as e:
            # distinguish rejection (python exception before the C compiler) from invalid C (C19's business)
            import cffi as _cffi

            if isinstance(e, (_cffi.VerificationError,)) or "CompileError" in type(e).__name__ or "LinkError" in type(e).__name__:
                res["status"] = "invalid-c"
                res["why"] = f"{type(e).__name__}: {str(e)[-300:]}"
            else:
                res["status"] = "rejected"
                res["why"] = f"{type(e).__name__}: {str(e)[:200]}"
            return res
        if check_positions:
            want = [fo.original_coefficients.index(cf) for cf in fo.coefficients]
            if comp.positions != want or comp.num_coefficients != len(want):
                res["failures"].append(dict(kind="positions", text=f"original_coefficient_positions {comp.positions} (num_coefficients {comp.num_coefficients}) "
                                            f"but the coefficients surviving in the form are at original positions {want}"))
                res["status"] = "violation"
                return res
            if comp.num_constants != len(fo.constants):
                res["failures"].append(dict(kind="constants", text=f"num_constants {comp.num_constants} but the original form has {len(fo.constants)}"))
                res["status"] = "violation"
                return res
        rng = np.random.default_rng([seed, 7])
        tol = TOL[scalar]
        zero_tol = None
        for itype, sid in fo.targets():
            ks = comp.kernels_for(itype, sid)
            res["kernels"] += len(ks)
            sides = ("+", "-") if itype == "interior_facet" else (None,)
            shape = fo.tensor_shape(itype)
            choices = entity_choices(fo, itype, entity_mode)
            if max_calls and len(choices) > max_calls:
                step = len(choices) / max_calls
                choices = [choices[int(i * step)] for i in range(max_calls)]
            for inst, X0 in geometry_instances(mesh, cell, geom, rng, instances):
                Xs = [X0]
                if len(sides) == 2:
                    # an independent second cell: the comparison is between two functions of the same data
                    Xs.append(X0[::1] * 0.9 + 0.05 + rng.uniform(-0.02, 0.02, size=X0.shape))
                modes = [cmplx_data] if not isinstance(cmplx_data, (list, tuple)) else list(cmplx_data)
                draws = [draw_data(fo, rng, sides, m) for m in modes]
                for (w, c), (ents, codes) in itertools.product(draws, choices):
                    ecell = fo.entity_cell(itype, ents[0])
                    try:
                        R = fo.tensor(itype, sid, Xs, w, c, entities=ents, codes=codes)
                    except NotImplementedError as e:
                        res["status"] = "oracle-unsupported"
                        res["why"] = str(e)
                        return res
                    if fo.last_margin < 1e-6:
                        res["ties_skipped"] = res.get("ties_skipped", 0) + 1
                        continue  # a comparison is within rounding distance of a tie: kernel and R may legitimately branch differently
                    A0 = np.zeros(int(np.prod(shape)) if shape else 1)
                    # kernels valid for this entity: matching integration-entity cell type
                    tag = {"point": 0}.get(ecell, None)
                    if tag is None:
                        tag = int(getattr(basix.CellType, ecell))
                    valid = [k for k in ks if comp.kernels[k].domain == tag]
                    if not valid:
                        res["failures"].append(dict(kind="no-kernel", itype=itype, sid=sid, entity=ents, ecell=ecell,
                                                    text=f"no kernel listed under ({itype}, {sid}) for integration entity type {ecell}"))
                        continue
                    wv, cv = pack(fo, comp, w, c, sides)
                    br_all = []
                    if poison:
                        # every coefficient the kernel flags as disabled is left "unpacked" (NaN) for that kernel
                        Acur = A0
                        for k in valid:
                            wk, _ = pack(fo, comp, w, c, sides, poison_disabled_for=comp.kernels[k])
                            call = Call(scalar, Acur, wk, cv, pack_geometry(Xs), ents[: len(sides)] if itype != "cell" else (0,),
                                        codes[: len(sides)] if itype == "interior_facet" else (0, 0), null_entity=(itype == "cell"))
                            call.run(comp.kernels[k])
                            Acur = call.result()
                            br_all += call.breaches()
                        A = Acur
                        call = None
                    else:
                        call = Call(scalar, A0, wv, cv, pack_geometry(Xs), ents[: len(sides)] if itype != "cell" else (0,),
                                    codes[: len(sides)] if itype == "interior_facet" else (0, 0), null_entity=(itype == "cell"))
                        for k in valid:
                            call.run(comp.kernels[k])
                        A = call.result()
                    err, scale = rel_err(A, np.asarray(R).ravel() if shape else np.asarray(R).reshape(1))
                    res["evaluations"] += 1
                    if scale > 1e-12:
                        res["nontrivial"] += 1
                    br = call.breaches() if call is not None else br_all
                    bad = (not np.all(np.isfinite(A))) or err > tol or br
                    if bad and not br and np.all(np.isfinite(A)) and err < 1e-5 and "64" in scalar or (bad and not br and "128" in scalar and err < 1e-5):
                        # possibly induced by table clamping tolerances: recompile with zero tolerances
                        if zero_tol is None:
                            o2 = dict(options or {})
                            o2.update(table_rtol=0.0, table_atol=0.0)
                            zero_tol = Compiled(form, scalar, o2)
                        call2 = Call(scalar, A0, wv, cv, pack_geometry(Xs), ents[: len(sides)] if itype != "cell" else (0,),
                                     codes[: len(sides)] if itype == "interior_facet" else (0, 0), null_entity=(itype == "cell"))
                        for k in zero_tol.kernels_for(itype, sid):
                            if zero_tol.kernels[k].domain == tag:
                                call2.run(zero_tol.kernels[k])
                        err2, _ = rel_err(call2.result(), np.asarray(R).ravel() if shape else np.asarray(R).reshape(1))
                        if err2 <= tol:
                            res["tolerance_induced"] += 1
                            bad = False
                    res["maxerr"] = max(res["maxerr"], err if np.isfinite(err) else np.inf)
                    if bad:
                        res["failures"].append(dict(kind="breach" if br else "mismatch", itype=itype, sid=sid, instance=inst, entities=list(ents),
                                                    codes=list(codes), relerr=err, scale=scale, breaches=br,
                                                    text=f"{itype} id={sid} geometry={inst} entities={ents} codes={codes}: kernel deviates from reference by {err:.3e} (scale {scale:.3e}) {br}"))
                        if len(res["failures"]) >= 5:
                            res["status"] = "violation"
                            return res
        if res["failures"]:
            res["status"] = "violation"
        if zero_tol is not None:
            zero_tol.cleanup()
        return res
    finally:
        if comp is not None and not keep:
            comp.cleanup()


def run_recipe(cfg, scalar="float64", options=None, seed=0, **kw):
    """Build a recipe and check it; returns the result dict (status may be 'inapplicable')."""
    try:
        B = forms.build(cfg)
    except forms.Inapplicable as e:
        return dict(status="inapplicable", why=str(e), evaluations=0, nontrivial=0, failures=[])
    except Exception as e:
        # UFL refused while constructing the form: also inapplicable (nothing reached FFCx)
        return dict(status="inapplicable", why=f"UFL build: {type(e).__name__}: {str(e)[:100]}", evaluations=0, nontrivial=0, failures=[])
    return check_form_against_oracle(B.form, B.mesh, B.cell, cfg.get("geom", "affine"), scalar, options, seed, **kw)


# ---------------------------------------------------------------------------------------------------
# metamorphic support: the outputs of every kernel call of a form under given options, on inputs that depend only
# on (form, seed) - two compilations of the same form can be compared call by call
# ---------------------------------------------------------------------------------------------------
def collect_outputs(form, mesh, cell, geom, scalar, options, seed, entity_mode="quick", instances=("aff",), forms_list=None, index=0, max_calls=40):
    """Returns (status, {call key: A}, info). forms_list: compile several forms in one request and look at forms_list[index]."""
    import ffcx.codegeneration.jit as jit

    cmplx = "complex" in scalar
    try:
        fo = oracle.FormOracle(form, cmplx=cmplx)
    except Exception as e:
        return "raised", {}, f"UFL: {type(e).__name__}: {str(e)[:200]}"
    opts = dict(options or {})
    opts["scalar_type"] = scalar
    cache = tempfile.mkdtemp(prefix="jit_", dir=scratch_root())
    try:
        try:
            objs, module, code = jit.compile_forms(list(forms_list) if forms_list else [form], options=opts, cache_dir=cache)
        except Exception as e:
            return "raised", {}, f"{type(e).__name__}: {str(e)[:200]}"
        f = objs[index]
        offsets = [f.form_integral_offsets[i] for i in range(len(UFCX_TYPES) + 1)]
        ids = [f.form_integral_ids[k] for k in range(offsets[-1])]
        kernels = [f.form_integrals[k] for k in range(offsets[-1])]
        positions = [f.original_coefficient_positions[i] for i in range(f.num_coefficients)]
        rank = f.rank
        out = {}
        rng = np.random.default_rng([seed, 9])
        for itype, sid in fo.targets():
            t = UFCX_TYPES.index(itype)
            ks = [k for k in range(offsets[t], offsets[t + 1]) if ids[k] == sid]
            sides = ("+", "-") if itype == "interior_facet" else (None,)
            full_shape = fo.tensor_shape(itype)
            choices = entity_choices(fo, itype, entity_mode)
            if max_calls and len(choices) > max_calls:
                step = len(choices) / max_calls
                choices = [choices[int(i * step)] for i in range(max_calls)]
            for inst, X0 in geometry_instances(mesh, cell, geom, rng, instances):
                Xs = [X0] + ([X0 * 0.9 + 0.05 + rng.uniform(-0.02, 0.02, size=X0.shape)] if len(sides) == 2 else [])
                w, c = draw_data(fo, rng, sides, cmplx)
                parts = []
                for pos in positions:
                    parts += [np.asarray(v) for v in w[fo.original_coefficients[pos]]]
                wv = np.concatenate(parts) if parts else np.zeros(0)
                cv = np.concatenate([np.asarray(c[k]).ravel() for k in fo.constants]) if fo.constants else np.zeros(0)
                nA = 1
                shape = full_shape[:rank] if rank < len(full_shape) else full_shape
                for n in shape:
                    nA *= n
                for ents, codes in choices:
                    ecell = fo.entity_cell(itype, ents[0])
                    tag = 0 if ecell == "point" else int(getattr(basix.CellType, ecell))
                    valid = [k for k in ks if kernels[k].domain == tag]
                    call = Call(scalar, np.zeros(nA), wv, cv, pack_geometry(Xs), ents[: len(sides)] if itype != "cell" else (0,),
                                codes[: len(sides)] if itype == "interior_facet" else (0, 0), null_entity=(itype == "cell"))
                    for k in valid:
                        call.run(kernels[k])
                    out[(itype, sid, inst, tuple(ents), tuple(codes))] = (call.result(), shape, bool(call.breaches()), len(valid))
        return "ok", out, dict(rank=rank, full_shape={it: fo.tensor_shape(it) for it, _ in fo.targets()})
    finally:
        shutil.rmtree(cache, ignore_errors=True)
