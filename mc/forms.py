"""Configuration recipes -> UFL objects (DESIGN §3).  A recipe is a plain dict (JSON-able); building is
deterministic and never relies on UFL's global counters.

Dimensions:  cell, geom, itype, arity, test, trial, op, factor, quad, subdomain, restr (dS only)
(scalar type and options are handled by the engine).
"""

from __future__ import annotations

import basix
import basix.ufl
import numpy as np
import ufl

TDIM = {"interval": 1, "triangle": 2, "quadrilateral": 2, "tetrahedron": 3, "hexahedron": 3, "prism": 3}
SIMPLEX = ("interval", "triangle", "tetrahedron")


class Inapplicable(Exception):
    """The recipe combines dimension values that do not make sense together (skipped and counted)."""


# ---------------------------------------------------------------------------------------------------
# meshes
# ---------------------------------------------------------------------------------------------------
GEOMS = ("affine", "general", "p2", "manifold")


def make_mesh(cell, geom, tp=False):
    tdim = TDIM[cell]
    if geom == "manifold":
        if tdim > 2 or cell == "prism":
            raise Inapplicable("manifold needs tdim <= 2")
        gdim, deg = tdim + 1, 1
    elif geom == "p2":
        gdim, deg = tdim, 2
    elif geom == "general":
        if cell in SIMPLEX:
            raise Inapplicable("P1 simplices are always affine")
        gdim, deg = tdim, 1
    else:
        gdim, deg = tdim, 1
    if tp:
        ce = tp_element(cell, deg, shape=(gdim,))
    else:
        ce = basix.ufl.element("P", cell, deg, shape=(gdim,))
    return ufl.Mesh(ce), gdim, deg


def tp_element(cell, degree, shape=None, variant=None):
    """Tensor-product-ordered Lagrange element (the only kind sum factorisation supports)."""
    e = basix.ufl.wrap_element(basix.create_tp_element(basix.ElementFamily.P, getattr(basix.CellType, cell), degree, variant or basix.LagrangeVariant.gll_warped))
    return e if shape is None else basix.ufl.blocked_element(e, shape=shape)


# ---------------------------------------------------------------------------------------------------
# elements
# ---------------------------------------------------------------------------------------------------
def make_element(name, cell, gdim, tp=False):
    if tp:
        if name in ("P1", "P2", "P3"):
            return tp_element(cell, int(name[1]))
        if name in ("vP1", "vP2"):
            return tp_element(cell, int(name[2]), shape=(gdim,))
        raise Inapplicable("only tensor-product Lagrange elements in tensor-product mode")
    el = basix.ufl.element
    tdim = TDIM[cell]
    simplex = cell in SIMPLEX
    try:
        if name in ("P1", "P2", "P3"):
            return el("P", cell, int(name[1]))
        if name in ("DG0", "DG1", "DG2"):
            return el("DG", cell, int(name[2]))
        if name == "P1+B":
            if cell not in ("triangle", "tetrahedron", "interval"):
                raise Inapplicable("bubble enrichment on simplices only")
            return basix.ufl.enriched_element([el("P", cell, 1), el("Bubble", cell, tdim + 1)])
        if name in ("vP1", "vP2", "vDG1"):
            fam = "DG" if "DG" in name else "P"
            return el(fam, cell, int(name[-1]), shape=(gdim,))
        if name == "symP1":
            if gdim != tdim:
                raise Inapplicable("symmetric tensors on manifolds not used")
            return el("P", cell, 1, shape=(gdim, gdim), symmetry=True)
        if name == "tDG1":
            return el("DG", cell, 1, shape=(gdim, gdim))
        if name in ("N1curl1", "N1curl2", "RT1", "RT2", "BDM1"):
            if tdim < 2 or cell == "prism":
                raise Inapplicable("H(div)/H(curl) need tdim >= 2 and no prism")
            fam = name.rstrip("12")
            if fam == "BDM" and not simplex:
                raise Inapplicable("BDM on simplices")
            return el(fam, cell, int(name[-1]))
        if name in ("Regge1", "HHJ1"):
            if cell not in ("triangle", "tetrahedron"):
                raise Inapplicable("Regge/HHJ on simplices")
            return el(name[:-1], cell, 1)
        if name == "CR1":
            if cell not in ("triangle", "tetrahedron"):
                raise Inapplicable("CR on simplices")
            return el("CR", cell, 1)
        if name == "TH":
            return basix.ufl.mixed_element([el("P", cell, 2, shape=(gdim,)), el("P", cell, 1)])
        if name == "vP1xP1":
            # equal-order pair: sub-elements of equal scalar dimension but different block sizes
            return basix.ufl.mixed_element([el("P", cell, 1, shape=(gdim,)), el("P", cell, 1)])
        if name == "RTxDG0":
            if tdim < 2 or cell == "prism":
                raise Inapplicable("RT needs tdim >= 2")
            return basix.ufl.mixed_element([el("RT", cell, 1), el("DG", cell, 0)])
        if name == "P1xR":
            return basix.ufl.mixed_element([el("P", cell, 1), basix.ufl.real_element(cell, ())])
        if name == "Real":
            return basix.ufl.real_element(cell, ())
        if name == "Quad2":
            return basix.ufl.quadrature_element(cell, degree=2)
        if name == "iso1":
            if cell == "interval" or cell == "prism":
                raise Inapplicable("macro element: basix tabulates the interval iso element with overflowing values; no prism")
            return el("iso", cell, 1)
        if name == "S2":
            if cell not in ("quadrilateral", "hexahedron"):
                raise Inapplicable("serendipity on quadrilaterals/hexahedra")
            return el("S", cell, 2)
        if name == "Bubble":
            if cell not in SIMPLEX:
                raise Inapplicable("bubble on simplices")
            return el("Bubble", cell, tdim + 1)
        if name == "N2curl1":
            if cell not in ("triangle", "tetrahedron"):
                raise Inapplicable("N2curl on simplices")
            return el("N2curl", cell, 1)
        if name == "nested":
            return basix.ufl.mixed_element([basix.ufl.mixed_element([el("P", cell, 1, shape=(gdim,)), el("DG", cell, 0)]), el("P", cell, 2)])
        if name == "vReal":
            return basix.ufl.real_element(cell, (2,))
    except Inapplicable:
        raise
    except Exception as e:  # basix refuses the combination
        raise Inapplicable(f"basix: {type(e).__name__}: {str(e)[:80]}")
    raise KeyError(name)


ELEMENT_DEGREE = {"P1": 1, "P2": 2, "P3": 3, "DG0": 0, "DG1": 1, "DG2": 2, "P1+B": 3, "vP1": 1, "vP2": 2, "vDG1": 1, "symP1": 1,
                  "tDG1": 1, "N1curl1": 1, "N1curl2": 2, "RT1": 1, "RT2": 2, "BDM1": 1, "Regge1": 1, "HHJ1": 1, "CR1": 1, "TH": 2,
                  "RTxDG0": 1, "P1xR": 1, "Real": 0, "Quad2": 0, "vP1xP1": 1, "iso1": 1, "S2": 2, "Bubble": 3, "N2curl1": 1, "nested": 2, "vReal": 0}
DISCONTINUOUS = {"DG0", "DG1", "DG2", "vDG1", "tDG1", "Quad2", "RTxDG0", "N1curl1", "N1curl2", "RT1", "RT2", "BDM1", "Regge1", "HHJ1", "CR1", "N2curl1", "nested"}


# ---------------------------------------------------------------------------------------------------
# recipe -> form
# ---------------------------------------------------------------------------------------------------
class Built:
    """Everything a check needs to know about a built recipe."""

    def __init__(self):
        self.form = None
        self.mesh = None
        self.cell = None
        self.gdim = None
        self.cdeg = None
        self.coefficients = {}  # name -> Coefficient
        self.constants = {}
        self.notes = []


def _ones(shape):
    if shape == ():
        return 1.0
    return ufl.as_tensor(np.ones(shape).tolist())


def _restrict(e, side):
    return e(side) if side else e


def build(cfg) -> Built:
    cell, geom, itype = cfg["cell"], cfg.get("geom", "affine"), cfg.get("itype", "dx")
    arity = cfg.get("arity", 2)
    tdim = TDIM[cell]
    if cell == "prism" and itype == "dS":
        raise Inapplicable("interior facets of prisms unsupported")
    if cell == "interval" and itype == "dP" and False:
        pass
    tp = bool(cfg.get("tp"))
    if tp and cell not in ("quadrilateral", "hexahedron"):
        raise Inapplicable("tensor-product elements on quadrilaterals/hexahedra only")
    mesh, gdim, cdeg = make_mesh(cell, geom, tp)
    B = Built()
    B.mesh, B.cell, B.gdim, B.cdeg = mesh, cell, gdim, cdeg
    tname, uname = cfg.get("test", "P1"), cfg.get("trial", "P1")
    if itype == "dP" and (tname in DISCONTINUOUS or uname in DISCONTINUOUS) and not cfg.get("allow_rejected"):
        raise Inapplicable("vertex integrals of discontinuous elements are rejected by FFCx")
    tmesh = mesh
    if cfg.get("mesh2") == "two":
        # parent mesh / sub-mesh of the same cells (codim 0): the test space lives on a second Mesh object with the same coordinate element
        tmesh = ufl.Mesh(mesh.ufl_coordinate_element())
    Vt = ufl.FunctionSpace(tmesh, make_element(tname, cell, gdim, tp))
    Vu = ufl.FunctionSpace(mesh, make_element(uname, cell, gdim, tp))
    V1 = ufl.FunctionSpace(mesh, tp_element(cell, 1) if tp else basix.ufl.element("P", cell, 1))
    V2 = ufl.FunctionSpace(mesh, tp_element(cell, 2) if tp else basix.ufl.element("P", cell, 2))
    if tp and cfg.get("tpmixed"):
        # a coefficient in a tensor-product space of the same degree as the arguments but another Lagrange variant (different 1D bases)
        V2 = ufl.FunctionSpace(mesh, tp_element(cell, ELEMENT_DEGREE[tname], variant=basix.LagrangeVariant.equispaced))
    f = ufl.Coefficient(V1)
    g = ufl.Coefficient(V2)
    B.coefficients = {"f": f, "g": g}
    c0 = ufl.Constant(mesh)
    cv = ufl.VectorConstant(mesh) if hasattr(ufl, "VectorConstant") else ufl.Constant(mesh, shape=(gdim,))
    cT = ufl.Constant(mesh, shape=(gdim, gdim))
    cR = ufl.Constant(mesh, shape=(gdim + 1, gdim))  # non-square: row-major flattening uses the LAST extent as stride
    B.constants = {"c0": c0, "cv": cv, "cT": cT, "cR": cR}
    x = ufl.SpatialCoordinate(mesh)

    restr = cfg.get("restr", "++") if itype == "dS" else None
    sv = {"++": "+", "+-": "+", "-+": "-", "--": "-"}.get(restr) if restr else None  # test side
    su = {"++": "+", "+-": "-", "-+": "+", "--": "-"}.get(restr) if restr else None  # trial side
    sf = None
    if itype == "dS":
        sf = {"++": "+", "+-": "-", "-+": "+", "--": "-", "jj": "+", "aa": "-", "ja": "+"}[restr]

    # arguments or, for lower arity, coefficients in the same spaces
    if arity == 2:
        v, u = ufl.TestFunction(Vt), ufl.TrialFunction(Vu)
    elif arity == 1:
        v = ufl.TestFunction(Vt)
        u = ufl.Coefficient(Vu)
        B.coefficients["uh"] = u
    else:
        v = ufl.Coefficient(Vt)
        u = ufl.Coefficient(Vu)
        B.coefficients["vh"] = v
        B.coefficients["uh"] = u

    def sided(e, s, which):
        if itype != "dS":
            return e
        if restr in ("jj", "ja") and which == "v" or restr == "jj" and which == "u":
            return ufl.jump(e)
        if restr in ("aa",) or (restr == "ja" and which == "u"):
            return ufl.avg(e)
        return e(s)

    op = cfg.get("op", "val")
    deg_t, deg_u = ELEMENT_DEGREE[tname], ELEMENT_DEGREE[uname]

    def apply_op(w, which, deg, name):
        shape = w.ufl_shape
        if op == "val":
            return w
        if name in ("Real", "Quad2", "vReal"):
            raise Inapplicable("no derivatives of real/quadrature elements")
        if op == "grad":
            return ufl.grad(w)
        if op == "dx0":
            return w.dx(0)
        if op == "dxlast":
            return w.dx(gdim - 1)
        if op == "hess":
            if deg < 2 or len(shape) > 1:
                raise Inapplicable("second derivatives need degree >= 2")
            return ufl.grad(ufl.grad(w))
        if op == "divcurl":
            if name.startswith(("N1curl", "N2curl")):
                if gdim != tdim:
                    raise Inapplicable("curl on manifold")
                return ufl.curl(w)
            if name.startswith(("RT", "BDM")) or (len(shape) == 1 and shape[0] == gdim and name.startswith("v")):
                return ufl.div(w)
            raise Inapplicable("div/curl need a vector-valued element")
        if op == "csum":
            # sum of all components: couples every component (and every sub-element of a mixed element) with every other one
            if len(shape) == 0:
                raise Inapplicable("component sum needs a non-scalar element")
            import itertools as _it

            return sum(w[idx] for idx in _it.product(*[range(n) for n in shape]))
        if op == "comp":
            if len(shape) == 0:
                raise Inapplicable("component pick needs a non-scalar element")
            idx = tuple(0 for _ in shape) if which == "u" else tuple(n - 1 for n in shape)
            return w[idx]
        raise KeyError(op)

    ou = apply_op(u, "u", deg_u, uname)
    ov = apply_op(v, "v", deg_t, tname)
    ou, ov = sided(ou, su, "u"), sided(ov, sv, "v")
    if arity == 2 or arity == 0:
        if ou.ufl_shape != ov.ufl_shape:
            # contract each against a fixed tensor so that any pair of spaces can be combined
            core = ufl.inner(ou, _ones(ou.ufl_shape)) * ufl.inner(_ones(ov.ufl_shape), ov) if ou.ufl_shape or ov.ufl_shape else ou * ov
            if ou.ufl_shape == () and ov.ufl_shape == ():
                core = ou * ufl.conj(ov)
        else:
            core = ufl.inner(ou, ov)
    else:
        # linear form: (coefficient in trial space, test function) if shapes agree, else contraction with ones
        if ou.ufl_shape == ov.ufl_shape:
            core = ufl.inner(ou, ov)
        else:
            core = ufl.inner(_ones(ov.ufl_shape), ov) * ufl.inner(ou, _ones(ou.ufl_shape))
    fname = cfg.get("factor", "f")
    fac = factor_expr(fname, B, mesh, cell, gdim, tdim, itype, sf, f, g, c0, cv, cT, x, cdeg, geom)
    if itype == "dS" and fname not in ("one", "c0"):
        # both restrictions of every factor appear in every interior-facet configuration (asymmetric weights)
        other = "-" if sf == "+" else "+"
        fac = fac + 2.0 * factor_expr(fname, B, mesh, cell, gdim, tdim, itype, other, f, g, c0, cv, cT, x, cdeg, geom)
    if tmesh is not mesh:
        # geometric quantities of BOTH meshes in one kernel (their static geometry tables are shared per cell type); the quotient is 1
        Rr = (lambda e: e(sf)) if itype == "dS" else (lambda e: e)
        if cell in SIMPLEX and cdeg == 1:
            fac = fac * (Rr(ufl.CellVolume(tmesh)) / Rr(ufl.CellVolume(mesh)))
        else:
            fac = fac * (Rr(ufl.CellDiameter(tmesh)) / Rr(ufl.CellDiameter(mesh)))
    wrap = cfg.get("wrap", "plain")
    if wrap == "plain":
        integrand = fac * core
    elif wrap == "condarg":
        # arguments inside both branches of a conditional, different non-argument factors
        Rr = (lambda e: e(sf)) if itype == "dS" else (lambda e: e)
        cnd = ufl.lt(ufl.real(Rr(f)), ufl.real(Rr(g)))
        integrand = ufl.conditional(cnd, 2.0 * fac * core, 5.0 * core)
    elif wrap == "sum2":
        # a second term with the same arguments under another operator and another factor
        if op == "val":
            if tname in ("Real", "Quad2", "vReal") or uname in ("Real", "Quad2", "vReal"):
                raise Inapplicable("no derivative term for real/quadrature elements")
            o2u, o2v = sided(u.dx(0), su, "u"), sided(v.dx(0), sv, "v")
        else:
            o2u, o2v = sided(u, su, "u"), sided(v, sv, "v")
        if o2u.ufl_shape == o2v.ufl_shape:
            core2 = ufl.inner(o2u, o2v)
        else:
            core2 = ufl.inner(o2u, _ones(o2u.ufl_shape)) * ufl.inner(_ones(o2v.ufl_shape), o2v)
        integrand = fac * core + (c0 + 0.25) * core2
    elif wrap == "neg":
        integrand = -(fac * core) + 0.5 * core * c0
    else:
        raise KeyError(wrap)

    # measure
    quad = cfg.get("quad", "auto")
    md = {}
    if quad == "deg1":
        md = {"quadrature_degree": 1}
    elif quad == "deg6":
        md = {"quadrature_degree": 6}
    elif quad == "vertex":
        if cell == "prism" and itype in ("ds",):
            raise Inapplicable("vertex scheme needs a single facet type")
        md = {"quadrature_rule": "vertex", "quadrature_degree": 1}
    elif quad in ("GLL3", "GLL1"):  # GLL1: two points per direction (mass lumping of degree-1 elements) - does NOT integrate the baseline integrand exactly
        ent = cell if itype == "dx" else {"interval": "point", "triangle": "interval", "quadrilateral": "interval", "tetrahedron": "triangle",
                                           "hexahedron": "quadrilateral", "prism": "mixed"}[cell]
        if ent not in ("interval", "quadrilateral", "hexahedron"):
            raise Inapplicable("GLL needs an interval/quadrilateral/hexahedron integration entity")
        md = {"quadrature_rule": "GLL", "quadrature_degree": int(quad[3])}
    elif quad in ("cust1", "cust3"):
        # user-supplied rules on the integration entity that are NOT invariant under the entity's symmetries: one off-centre point / three scattered points
        if itype in ("ds", "dS") and (cell == "prism" or tdim == 1):
            raise Inapplicable("custom facet rule: two facet types / point facets")
        import basix as _bx

        ent = cell if itype == "dx" else _bx.cell.subentity_types(getattr(_bx.CellType, cell))[tdim - 1][0].name
        ev = np.asarray(_bx.geometry(getattr(_bx.CellType, ent)), dtype=float)
        cen = ev.mean(axis=0)
        vol = _bx.cell.volume(getattr(_bx.CellType, ent))
        if quad == "cust1":
            cp, cw = (0.55 * ev[0] + 0.45 * cen)[None, :], np.array([0.9 * vol])
        else:
            cp = np.array([0.5 * ev[0] + 0.5 * cen, 0.2 * ev[-1] + 0.8 * cen, 0.35 * ev[len(ev) // 2] + 0.65 * cen])
            cw = np.array([0.2, 0.5, 0.3]) * vol
        md = {"quadrature_rule": "custom", "quadrature_points": np.ascontiguousarray(cp), "quadrature_weights": cw}
    elif quad in ("two", "two1", "mix2", "same2"):
        md = None  # handled below
    elif quad != "auto":
        raise KeyError(quad)
    if itype == "dP" and quad != "auto":
        raise Inapplicable("vertex integrals have a fixed rule")
    M = {"dx": ufl.dx, "ds": ufl.ds, "dS": ufl.dS, "dP": ufl.dP}[itype]
    sub = cfg.get("subdomain", "all")
    sid = {"all": None, "id": 3, "tuple": (2, 5), "all+id": None}[sub]
    dom_kw = {"domain": mesh}

    def meas(meta):
        kw = dict(dom_kw)
        if meta:
            kw["metadata"] = meta
        m = M(**kw) if sid is None else M(sid, **kw)
        return m

    if quad == "same2":
        # the SAME integrand under two rules of one subdomain (reduced + full rule of one term): both contributions are there
        form = integrand * meas({"quadrature_degree": 2}) + integrand * meas({"quadrature_degree": 4})
    elif quad == "mix2":
        # two DIFFERENT schemes of the SAME degree in one kernel (e.g. lumped mass + consistent term): each integrand keeps its own rule
        if cell == "prism":
            raise Inapplicable("no second named scheme for every prism entity type")
        ecell = cell if itype == "dx" else {"triangle": "interval", "quadrilateral": "interval", "tetrahedron": "triangle", "hexahedron": "quadrilateral", "interval": "point"}[cell]
        if ecell == "point":
            raise Inapplicable("point facets have one rule")
        other = "GLL" if ecell in ("interval", "quadrilateral", "hexahedron") else "Gauss-Jacobi"
        form = integrand * meas({"quadrature_degree": 2, "quadrature_rule": other}) + (2.0 + c0) * core * meas({"quadrature_degree": 2})
    elif quad == "two1":
        # a one-point rule next to another rule; the coefficient f appears under both (piecewise for the first, varying for the second)
        ff = f(sf) if itype == "dS" else f
        form = integrand * meas({"quadrature_degree": 1}) + (2.0 + c0) * ufl.cos(ff) * core * meas({"quadrature_degree": 4})
    elif quad == "two":
        # two integrals with different rules on the same subdomain: different integrands each
        form = integrand * meas({"quadrature_degree": 2}) + (2.0 + c0) * core * meas({"quadrature_degree": 5})
    else:
        form = integrand * meas(md)
    if sub == "all+id":
        # the id-integral uses a later coefficient (g) and skips the earlier one (f)
        form = form + 3.0 * (g(sf) if itype == "dS" else g) * core * M(3, **dom_kw)
    B.form = form
    return B


# ---------------------------------------------------------------------------------------------------
# factors: scalar expressions of coefficients f (P1), g (P2), constants, geometry. All arguments of
# sqrt/log/acos stay in their domains for any real data; comparisons use real parts (complex mode).
# ---------------------------------------------------------------------------------------------------
FACTORS = (
    "one", "f", "fg", "c0", "cT", "xpoly", "sin", "exp", "sqrt", "abs", "sq", "pow", "rational", "cond", "condlogic", "maxmin",
    "erf", "atan2", "bessel", "gradf", "cellvol", "diam", "circum", "facetarea", "minmaxedge", "normal", "quadel", "realel",
    "tanh", "acos", "lnpow", "cv", "cR",
)


def factor_expr(name, B, mesh, cell, gdim, tdim, itype, sf, f, g, c0, cv, cT, x, cdeg, geom):
    R = (lambda e: e(sf)) if itype == "dS" else (lambda e: e)
    facet = itype in ("ds", "dS")
    re = ufl.real
    if name == "one":
        return 1.0
    if name == "f":
        return R(f)
    if name == "fg":
        return R(f) * R(g)
    if name == "c0":
        return c0
    if name == "cv":
        return ufl.inner(cv, cv) + R(f)
    if name == "cT":
        return ufl.inner(cT, ufl.Identity(gdim)) + cT[0, gdim - 1] * R(f)
    if name == "cR":
        K3 = ufl.Constant(mesh, shape=(2, gdim, gdim + 1))
        B.constants["cK3"] = K3
        cR = B.constants["cR"]
        return cR[gdim, 0] * R(f) + cR[1, gdim - 1] + cR[gdim, gdim - 1] * K3[1, gdim - 1, gdim] + K3[0, 0, gdim] * K3[1, 0, 1]
    if name == "xpoly":
        return 1.0 + R(x[0]) * R(x[gdim - 1]) + R(x[0]) ** 2
    if name == "sin":
        return ufl.sin(R(f))
    if name == "exp":
        return ufl.exp(-R(f) * R(g))
    if name == "sqrt":
        return ufl.sqrt(1.0 + R(f) ** 2)
    if name == "abs":
        return abs(R(f) - 0.75)
    if name == "sq":
        return R(f) ** 2
    if name == "pow":
        return (R(f) ** 2 + 1.0) ** 1.5
    if name == "rational":
        return 1.0 / (1.0 + R(g) ** 2)
    if name == "tanh":
        return ufl.tanh(R(f)) + ufl.cosh(0.5 * R(g))
    if name == "acos":
        return ufl.acos(0.5 * ufl.sin(R(f))) + ufl.atan(R(g))
    if name == "lnpow":
        return ufl.ln(2.0 + R(f) ** 2) * R(g) ** 3
    if name == "cond":
        return ufl.conditional(ufl.lt(re(R(f)), re(R(g))), 1.5, 2.0 + R(f))
    if name == "condlogic":
        c1 = ufl.And(ufl.gt(re(R(f)), 0.9), ufl.Not(ufl.ge(re(R(g)), 1.2)))
        c2 = ufl.Or(c1, ufl.le(re(R(f) * R(g)), 0.8))
        return ufl.conditional(c2, R(f), R(g) * 2.0)
    if name == "maxmin":
        return ufl.max_value(re(R(f)), 1.0) + ufl.min_value(re(R(g)), 1.1)
    if name == "erf":
        return ufl.erf(re(R(f)))
    if name == "atan2":
        return ufl.atan2(re(R(f)), 1.0 + re(R(g)) ** 2)
    if name == "bessel":
        return ufl.bessel_J(1, re(R(f))) + ufl.bessel_Y(0, 1.0 + re(R(g)) ** 2)
    if name == "gradf":
        return ufl.inner(R(ufl.grad(f)), R(ufl.grad(g)))
    if name == "cellvol":
        return R(ufl.CellVolume(mesh))
    if name == "diam":
        return R(ufl.CellDiameter(mesh))
    if name == "circum":
        if cell not in SIMPLEX or cdeg != 1:
            raise Inapplicable("circumradius needs affine simplices")
        return R(ufl.Circumradius(mesh))
    if name == "facetarea":
        if not facet or tdim < 2:
            raise Inapplicable("facet area on facet integrals")
        return ufl.FacetArea(mesh)
    if name == "minmaxedge":
        if not facet or tdim < 3:
            raise Inapplicable("facet edge lengths in 3D facet integrals")
        return ufl.MinFacetEdgeLength(mesh) + 2.0 * ufl.MaxFacetEdgeLength(mesh)
    if name == "normal":
        if not facet:
            raise Inapplicable("facet normal on facet integrals")
        n = ufl.FacetNormal(mesh)
        return ufl.inner(R(n), R(ufl.grad(g))) + 0.5
    if name == "quadel":
        if itype != "dx":
            raise Inapplicable("quadrature element on cell integrals")
        q = ufl.Coefficient(ufl.FunctionSpace(mesh, basix.ufl.quadrature_element(cell, degree=2)))
        B.coefficients["q"] = q
        return q
    if name == "realel":
        r = ufl.Coefficient(ufl.FunctionSpace(mesh, basix.ufl.real_element(cell, ())))
        B.coefficients["r"] = r
        return R(r) * R(f)
    raise KeyError(name)
