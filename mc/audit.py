"""Kernel-level audits shared by C07 (accumulate/purity), C08 (extents) and C17 (optimiser passes):
compile a configuration while capturing the L-AST of every kernel, bind each AST to its compiled kernel by name,
and run the compiled kernel and/or the LVM on harness-made inputs."""

from __future__ import annotations

import itertools
import re

import basix
import numpy as np

from . import engine, forms, lvm, oracle, space


def corpus(thorough, extra_dims=()):
    """Configurations used by the kernel-level checks: radius-1 neighbourhoods of (cell, integral type) baselines.

    quick: the four triangle baselines with the full value lists, eight further (cell, type) baselines with the core value lists;
    thorough: every (cell, type) baseline with the full value lists."""
    dims = ["geom", "arity", "elem", "op", "factor", "wrap", "quad", "restr", "mesh2"] + [d for d in extra_dims if d != "mesh2"]
    if thorough:
        pairs = [(c, it) for c in space.CELLS for it in ("dx", "ds", "dS", "dP") if not (c == "prism" and it == "dS")]
        nodes, edges, by = space.explore([space.baseline(c, it) for c, it in pairs], 1, dims=dims)
        return nodes, edges
    full = [("triangle", "dx"), ("triangle", "ds"), ("triangle", "dS"), ("triangle", "dP")]
    core = [("quadrilateral", "dx"), ("quadrilateral", "dS"), ("tetrahedron", "dx"), ("tetrahedron", "dS"), ("hexahedron", "dx"), ("hexahedron", "dS"), ("prism", "ds"),
            ("interval", "dx"), ("interval", "dS")]
    nodes, edges, _ = space.explore([space.baseline(c, it) for c, it in full], 1, dims=dims)
    saved = dict(space.DIMS)
    try:
        for d, (allv, corev) in saved.items():
            space.DIMS[d] = ([allv[0]] + [v for v in corev if v != allv[0]], corev)
        n2, e2, _ = space.explore([space.baseline(c, it) for c, it in core], 1, dims=dims)
    finally:
        space.DIMS.clear()
        space.DIMS.update(saved)
    nodes.update(n2)
    return nodes, edges + e2


def kernel_names(source):
    m = re.search(r"form_integrals_form_\w+\[\d+\]\s*=\s*\{([^}]*)\}", source)
    if not m:
        return []
    return [x.strip().lstrip("&") for x in m.group(1).split(",") if x.strip()]


class Case:
    """One compiled configuration with captured ASTs bound to kernels."""

    def __init__(self, cfg, scalar="float64", options=None, passes_off=()):
        import ffcx.codegeneration.optimizer as opt

        self.cfg = cfg
        self.B = forms.build(cfg)
        self.scalar = scalar
        self.cmplx = "complex" in scalar
        saved = {n: getattr(opt, n) for n in ("fuse_sections", "fuse_loops", "licm")}
        try:
            if "fuse_sections" in passes_off:
                opt.fuse_sections = lambda code, name: code
            if "fuse_loops" in passes_off:
                opt.fuse_loops = lambda section: section
            if "licm" in passes_off:
                opt.licm = lambda section, rule: section
            with lvm.capture() as caps:
                self.comp = engine.Compiled(self.B.form, scalar, options)
        finally:
            for n, f in saved.items():
                setattr(opt, n, f)
        self.fo = oracle.FormOracle(self.B.form, cmplx=self.cmplx)
        names = kernel_names(self.comp.code[1])
        by_name = {f"{c.name}_{c.domain}": c for c in caps if c.kind == "integral"}
        self.asts = [by_name.get(n) for n in names]  # index-aligned with comp.kernels
        self.names = names

    def kernels(self):
        """Yield (k, itype, sid, ast) for every kernel of the form."""
        comp = self.comp
        for t, itype in enumerate(engine.UFCX_TYPES):
            for k in range(comp.offsets[t], comp.offsets[t + 1]):
                yield k, itype, comp.ids[k], self.asts[k] if k < len(self.asts) else None

    def inputs(self, itype, rng, cmplx_data=None):
        """Harness-made inputs with extents computed from the form (never from FFCx)."""
        fo, comp = self.fo, self.comp
        sides = ("+", "-") if itype == "interior_facet" else (None,)
        (inst, X0), = engine.geometry_instances(self.B.mesh, self.B.cell, self.cfg.get("geom", "affine"), rng, ("aff",))
        Xs = [X0] + ([X0 * 0.9 + 0.05 + rng.uniform(-0.02, 0.02, size=X0.shape)] if len(sides) == 2 else [])
        w, c = engine.draw_data(fo, rng, sides, self.cmplx if cmplx_data is None else cmplx_data)
        wv, cv = engine.pack(fo, comp, w, c, sides)
        shape = fo.tensor_shape(itype)
        nA = int(np.prod(shape)) if shape else 1
        return dict(w=wv, c=cv, X=engine.pack_geometry(Xs), nA=nA, sides=sides, shape=shape)

    def entity_values(self, itype, kernel_domain):
        """All valid (entities, codes) for a kernel whose integration-entity type is kernel_domain."""
        out = []
        for ents, codes in engine.entity_choices(self.fo, itype, "full"):
            ecell = self.fo.entity_cell(itype, ents[0])
            tag = 0 if ecell == "point" else int(getattr(basix.CellType, ecell))
            if tag == kernel_domain:
                out.append((ents, codes))
        return out

    def call_c(self, k, itype, inp, ents, codes, A0=None):
        sides = inp["sides"]
        A0 = np.zeros(inp["nA"]) if A0 is None else A0
        call = engine.Call(self.scalar, A0, inp["w"], inp["c"], inp["X"], ents[: len(sides)] if itype != "cell" else (0,),
                           codes[: len(sides)] if itype == "interior_facet" else (0, 0), null_entity=(itype == "cell"))
        call.run(self.comp.kernels[k])
        return call

    def run_lvm(self, prog, itype, inp, ents, codes, A0=None, budget=None):
        sides = inp["sides"]
        dt = complex if self.cmplx else float
        A = np.zeros(inp["nA"], dtype=dt) if A0 is None else np.array(A0, dtype=dt)
        ent = np.array(ents[: len(sides)] if itype != "cell" else (0,), dtype=np.int64)
        perm = np.array(codes[: len(sides)] if itype == "interior_facet" else (0,) * len(sides), dtype=np.int64)
        tr = prog.run(A, np.asarray(inp["w"], dtype=dt), np.asarray(inp["c"], dtype=dt), np.asarray(inp["X"], dtype=float), ent, perm,
                      trace=lvm.Trace(budget=budget), null_entity=(itype == "cell"))
        return A, tr

    def cleanup(self):
        self.comp.cleanup()


def static_nonconst_objects(source):
    """Objects with static storage duration declared inside tabulate_tensor bodies that are not const."""
    out = []
    for m in re.finditer(r"void tabulate_tensor_\w+\s*\(", source):
        i = source.index("{", m.end())
        depth, j = 0, i
        while True:
            ch = source[j]
            if ch == "{":
                depth += 1
            elif ch == "}":
                depth -= 1
                if depth == 0:
                    break
            j += 1
        body = source[i:j]
        for line in body.splitlines():
            ls = line.strip()
            if re.match(r"static\b", ls) and not re.match(r"static\s+const\b", ls):
                out.append(ls[:100])
    return out
