------------------------------ MODULE JitCache ------------------------------
(* Model of the FFCx JIT cache protocol (ffcx/codegeneration/jit.py: get_cached_module,             *)
(* compile_forms, _compile_objects, _load_objects) at the granularity of the file-system steps and  *)
(* polls that mc/sched.py uses as scheduling points.  One module name, a set of requesting          *)
(* processes, no failures.  Every behaviour of this model is replayed against the real code by       *)
(* mc/checks/C14.py (conformance): at every step the real process's pending operation must be the    *)
(* one the model takes, and the final outcomes must agree.                                           *)
EXTENDS Naturals, FiniteSets

CONSTANTS Procs, Timeout

VARIABLES pc, lockfile, marker, so, polls, result, builds

vars == <<pc, lockfile, marker, so, polls, result, builds>>

BuilderPhase == {"gen", "cffi_read", "cffi_write", "cffi_rename", "cc_write", "ld_create", "ld_complete", "marker"}

Init == /\ pc = [p \in Procs |-> "start"]
        /\ lockfile = FALSE
        /\ marker = FALSE
        /\ so = "none"
        /\ polls = [p \in Procs |-> 0]
        /\ result = [p \in Procs |-> "none"]
        /\ builds = 0

Goto(p, l) == pc' = [pc EXCEPT ![p] = l]

Start(p) == /\ pc[p] = "start"
            /\ Goto(p, "lock")
            /\ UNCHANGED <<lockfile, marker, so, polls, result, builds>>

(* open(c_filename, "x"): atomic exclusive create *)
Lock(p) == /\ pc[p] = "lock"
           /\ IF lockfile THEN Goto(p, "poll_stat") /\ UNCHANGED lockfile
                          ELSE Goto(p, "gen") /\ lockfile' = TRUE
           /\ UNCHANGED <<marker, so, polls, result, builds>>

Gen(p) == /\ pc[p] = "gen"
          /\ Goto(p, "cffi_read")
          /\ builds' = builds + 1
          /\ UNCHANGED <<lockfile, marker, so, polls, result>>

CffiRead(p) == /\ pc[p] = "cffi_read"
               /\ Goto(p, "cffi_write")
               /\ UNCHANGED <<lockfile, marker, so, polls, result, builds>>

CffiWrite(p) == /\ pc[p] = "cffi_write"
                /\ Goto(p, "cffi_rename")
                /\ UNCHANGED <<lockfile, marker, so, polls, result, builds>>

CffiRename(p) == /\ pc[p] = "cffi_rename"
                 /\ Goto(p, "cc_write")
                 /\ UNCHANGED <<lockfile, marker, so, polls, result, builds>>

CcWrite(p) == /\ pc[p] = "cc_write"
              /\ Goto(p, "ld_create")
              /\ UNCHANGED <<lockfile, marker, so, polls, result, builds>>

LdCreate(p) == /\ pc[p] = "ld_create"
               /\ so' = "partial"
               /\ Goto(p, "ld_complete")
               /\ UNCHANGED <<lockfile, marker, polls, result, builds>>

LdComplete(p) == /\ pc[p] = "ld_complete"
                 /\ so' = "complete"
                 /\ Goto(p, "marker")
                 /\ UNCHANGED <<lockfile, marker, polls, result, builds>>

(* open(ready_name, "x") after ffibuilder.compile returned *)
Marker(p) == /\ pc[p] = "marker"
             /\ marker' = TRUE
             /\ Goto(p, "find_spec")
             /\ UNCHANGED <<lockfile, so, polls, result, builds>>

PollStat(p) == /\ pc[p] = "poll_stat"
               /\ IF marker THEN Goto(p, "find_spec") ELSE Goto(p, "sleep")
               /\ UNCHANGED <<lockfile, marker, so, polls, result, builds>>

Sleep(p) == /\ pc[p] = "sleep"
            /\ polls' = [polls EXCEPT ![p] = @ + 1]
            /\ IF polls[p] + 1 < Timeout
                 THEN Goto(p, "poll_stat") /\ UNCHANGED result
                 ELSE Goto(p, "done") /\ result' = [result EXCEPT ![p] = "timeout"]
            /\ UNCHANGED <<lockfile, marker, so, builds>>

FindSpec(p) == /\ pc[p] = "find_spec"
               /\ IF so = "none"
                    THEN Goto(p, "done") /\ result' = [result EXCEPT ![p] = "notfound"]
                    ELSE Goto(p, "load") /\ UNCHANGED result
               /\ UNCHANGED <<lockfile, marker, so, polls, builds>>

Load(p) == /\ pc[p] = "load"
           /\ result' = [result EXCEPT ![p] = IF so = "complete" THEN "ok" ELSE "partial"]
           /\ Goto(p, "done")
           /\ UNCHANGED <<lockfile, marker, so, polls, builds>>

Step(p) == \/ Start(p) \/ Lock(p) \/ Gen(p) \/ CffiRead(p) \/ CffiWrite(p) \/ CffiRename(p) \/ CcWrite(p)
           \/ LdCreate(p) \/ LdComplete(p) \/ Marker(p) \/ PollStat(p) \/ Sleep(p) \/ FindSpec(p) \/ Load(p)

Next == \E p \in Procs : Step(p)

Spec == Init /\ [][Next]_vars

MutualExclusion == Cardinality({p \in Procs : pc[p] \in BuilderPhase}) <= 1
NoPartialLoad   == \A p \in Procs : result[p] \notin {"partial", "notfound"}
SingleBuild     == builds <= 1
MarkerImpliesComplete == marker => so = "complete"
TimeoutOnlyWithoutMarker == \A p \in Procs : result[p] = "timeout" => polls[p] = Timeout
AllDoneOk == (\A p \in Procs : pc[p] = "done") => (builds = 1 /\ \A p \in Procs : result[p] \in {"ok", "timeout"})
=============================================================================
