CONSTANTS
  Procs = {p0, p1}
  Timeout = 2
INIT Init
NEXT Next
INVARIANTS MutualExclusion NoPartialLoad SingleBuild MarkerImpliesComplete TimeoutOnlyWithoutMarker AllDoneOk
